"""Rules over the codec trees (A6) against spec/c3d_layout.json.  Used by C01–C04, C12, C17."""
import json
import os
import re
from facts import AnalysisBroken, VERIF
from paths import Renderer
import codec
import poly as P
import effects as FX
import p_c18 as _c18

SIZE_CHANGING = {'append', 'resize', 'erase', 'insert', 'assign'}


def load_spec():
    with open(os.path.join(VERIF, 'spec', 'c3d_layout.json')) as fh:
        return json.load(fh)


def _ctor_sizing(prog, c, cls, field, depth=0):
    """how constructor c of cls sizes `field`: ('const', K) / ('same-as-source',) / None"""
    R = Renderer(c)
    # member initialiser
    for i in c.rec.get('inits', []):
        if i.get('field') == field and i['written']:
            e = c.nodes[c.strip(i['expr'], 'noop')]
            while e['k'] in ('ExprWithCleanups', 'MaterializeTemporaryExpr', 'CXXBindTemporaryExpr') and e['ch']:
                e = c.nodes[c.strip(e['ch'][0], 'noop')]
            if e['k'] == 'CXXConstructExpr':
                args = e.get('args', [])
                real = [a for a in args if c.nodes[c.strip(a, 'all')]['k'] != 'CXXDefaultArgExpr']
                if len(real) == 1 and e['callee'].get('class', '').startswith('std::vector'):
                    # a braced list of K elements:  _data({a, b, c, d})
                    il = c.nodes[c.strip(real[0], 'noop')]
                    hops = 0
                    while il['k'] in ('CXXStdInitializerListExpr', 'MaterializeTemporaryExpr', 'ExprWithCleanups', 'CXXBindTemporaryExpr', 'ImplicitCastExpr') and il['ch'] and hops < 6:
                        il = c.nodes[il['ch'][0]]
                        hops += 1
                    if il['k'] == 'InitListExpr' and hops:
                        return ('const', len(il['ch']))
                if len(real) in (1, 2):
                    a0 = c.nodes[c.strip(real[0], 'all')]
                    a0n = c.nodes[c.strip(real[0], 'noop')]
                    if 'cv' in a0 and a0n.get('tc') in ('u', 's') and e['callee'].get('class', '').startswith('std::vector'):
                        return ('const', int(a0['cv']))
                    if len(real) == 1 and R.render(real[0]) == 'arg0.' + field and c.rec.get('copy'):
                        return ('same-as-source',)
                    if len(real) == 2:
                        r0, r1 = R.render(real[0]), R.render(real[1])
                        m = re.match(r'^%s\.operator\+\((\d+)\)$' % re.escape(r0), r1) or re.match(r'^\(%s \+ (\d+)\)$' % re.escape(r0), r1)
                        if m and r0.endswith('.begin()'):
                            return ('const', int(m.group(1)))
                        if r0.endswith('.begin()') and r1 == r0[:-len('.begin()')] + '.end()' and r0 == 'arg0.%s.begin()' % field and c.rec.get('copy'):
                            return ('same-as-source',)
    # resize(K) in the body
    for n in c.calls():
        o = c.call_obj(n)
        if o is not None and n['callee']['name'] == 'resize' and len(c.call_args(n)) >= 1:
            on = c.nodes[c.strip(o, 'all')]
            a = c.nodes[c.strip(c.call_args(n)[0], 'all')]
            if on['k'] == 'MemberExpr' and on.get('member') == field and 'cv' in a:
                return ('const', int(a['cv']))
    # K unconditional appends to the (default-constructed, hence empty) member in a straight-line body
    pushes_ = [n for n in c.calls() if n['callee']['name'] in ('push_back', 'emplace_back') and c.call_obj(n) is not None and
               c.nodes[c.strip(c.call_obj(n), 'all')]['k'] == 'MemberExpr' and c.nodes[c.strip(c.call_obj(n), 'all')].get('member') == field]
    if pushes_ and not any(True for _ in c.all_nodes({'IfStmt', 'ForStmt', 'WhileStmt', 'DoStmt', 'SwitchStmt', 'CXXForRangeStmt', 'ConditionalOperator', 'CXXTryStmt'})) and \
            not any(i.get('field') == field and i['written'] and c.nodes[c.strip(i['expr'], 'noop')].get('args') for i in c.rec.get('inits', [])):
        return ('const', len(pushes_))
    # delegation to another constructor of the class
    if depth < 3:
        for n in c.all_nodes({'CXXConstructExpr'}):
            if n['callee'].get('class') == cls and n['callee'].get('usr') != c.usr and n['id'] in [i['expr'] for i in c.rec.get('inits', []) if not i.get('field')] + \
                    [c.strip(i['expr'], 'noop') for i in c.rec.get('inits', []) if not i.get('field')]:
                t = prog.funcs.get(n['callee']['usr'])
                if t is not None:
                    return _ctor_sizing(prog, t, cls, field, depth + 1)
    # whole-vector copy in a copy constructor / assignment from the source's same member
    if c.rec.get('copy'):
        for g, nid, rhs in _c18.field_writes(prog, cls, field):
            if g is c and rhs is not None and R.render(rhs) == 'arg0.' + field:
                return ('same-as-source',)
    return None


def vector_size_invariant(prog, cls, field):
    """constant K such that every constructor of cls leaves field with exactly K elements (resize(K),
    a sized member initialiser, delegation to such a constructor, or - in a copy constructor - a copy
    of the source's same member) and no other function of cls changes the size of field; else None"""
    for fl in prog.classes.get(cls, {}).get('fields', []):
        if fl['name'] == field:
            am = re.match(r'^std::array<.*, (\d+)>$', fl['type']) or re.match(r'^[\w: ]+\[(\d+)\]$', fl['type'])
            if am:
                return int(am.group(1))      # a fixed-size array member: its size is part of the type
    ctors = [f for f in prog.repo_funcs() if f.cls == cls and f.kind == 'ctor' and not f.implicit and not f.rec.get('move')]
    if not [c for c in ctors if not c.rec.get('copy')]:
        return None
    K = None
    for c in ctors:
        if c.rec.get('defaulted') and (c.rec.get('copy') or c.rec.get('move')):
            continue      # member-wise copy: the size of the source
        sz = _ctor_sizing(prog, c, cls, field)
        if sz is None:
            return None
        if sz[0] == 'const':
            if K is not None and K != sz[1]:
                return None
            K = sz[1]
    if K is None:
        return None
    for f in prog.repo_funcs():
        if f.cls != cls:
            continue
        for n in f.calls():
            c = n['callee']
            o = f.call_obj(n)
            if o is None or c.get('const') or not c.get('classq', '').startswith('std::'):
                continue
            on = f.nodes[f.strip(o, 'all')]
            if not (on['k'] == 'MemberExpr' and on.get('member') == field and on.get('fclass') == cls):
                continue
            eff = FX.STD_MUT.get(c['name'], 'call:' + c['name'])
            if eff is None:
                continue
            if eff == 'resize' and len(f.call_args(n)) >= 1:
                a = f.nodes[f.strip(f.call_args(n)[0], 'all')]
                if 'cv' in a and int(a['cv']) == K:
                    continue
            if f.kind == 'ctor' and c['name'] in ('push_back', 'emplace_back', 'reserve') and _ctor_sizing(prog, f, cls, field) == ('const', K):
                continue      # the appends that make up the K elements in this constructor (counted by _ctor_sizing)
            return None
        # whole-vector assignment outside the constructors
        for g, nid, rhs in _c18.field_writes(prog, cls, field):
            if g is f and not f.implicit and f.kind != 'ctor':
                return None
    return K


def flatten(prog, items, cls, out=None, rep=1, path=()):
    """linear list of io items with a constant repetition count; loops whose trip count is the
    size of a member vector with a verified constant-size invariant are unrolled symbolically
    (rep multiplied).  Returns (list, problems)"""
    out = out if out is not None else []
    probs = []
    for it in items:
        t = it[0]
        if t == 'io':
            d = dict(it[1])
            d['rep'] = rep
            out.append(d)
        elif t == 'loop':
            r = it[1]
            k = None
            if r is not None:
                if set(r.keys()) <= {()}:
                    k = r.get((), 0)
                elif len(r) == 1:
                    (mono, c), = r.items()
                    m = re.match(r'^this\.(\w+)\.size$', mono[0]) if len(mono) == 1 else None
                    if m and c == 1:
                        k = vector_size_invariant(prog, cls, m.group(1))
            if k is None:
                d = {'k': 'loop?', 'items': it[3], 'node': it[4], 'fn': it[5], 'rep': rep, 'where': it[5].loc(it[4])}
                out.append(d)
            else:
                _, p2 = flatten(prog, it[3], cls, out, rep * k, path)
                probs.extend(p2)
        elif t == 'alt':
            out.append({'k': 'alt', 'cond': it[1], 'then': it[2], 'else': it[3], 'rep': rep, 'where': it[5].loc(it[4]), 'fn': it[5], 'node': it[4]})
        elif t == 'call':
            _, p2 = flatten(prog, it[3], it[1].cls or cls, out, rep, path)
            probs.extend(p2)
        elif t == 'slot':
            out.append({'k': 'slot', 'op': it[1], 'arg': it[2], 'rep': rep, 'where': it[4].loc(it[3]), 'fn': it[4], 'node': it[3]})
    return out, probs


def width_const(d):
    w = d.get('width')
    if w is None:
        return None
    if set(w.keys()) <= {()}:
        return w.get((), 0)
    return None


# ---------------------------------------------------------------------------------------------
# header

def header_reader_rule(prog, res, rule='header-read', int_scale_ok=False):
    spec = load_spec()
    f = prog.fn('ezc3d::Header::read', nparams=1)
    ex = codec.Extractor(prog, 'r')
    seq = ex.seq_of(f)
    flat, _ = flatten(prog, seq, 'ezc3d::Header')
    # 1. the leading-zero skipper: first read at absolute offset 0, then a loop re-reading one byte
    #    into the same member while it is zero, counting iterations in _nbOfZerosBeforeHeader
    ios = [d for d in flat]
    pos = 0
    first = ios[0] if ios else None
    if not first or first.get('k') != 'readUint' or first.get('dest') != 'this._parametersAddress' or width_const(first) != 1 or \
            first.get('whence') != '0' or P.show(first.get('skip', {})) != '0':
        seeks_first = [('slot', 'seek', Renderer(f).render(f.call_args(c_)[0]) if f.call_args(c_) else '?') for c_ in f.calls() if c_['callee']['name'] in ('seekg', 'seekp') and c_['k'] == 'CXXMemberCallExpr']
        if seeks_first:
            # the stream is positioned by an explicit seekg() before a plain read: where it seeks to is not tabulated by this rule
            res.undecided(rule, 'header.word1.parameter_block', f.loc(), 'the header is read after an explicit seekg(%s): the absolute position of the first read is not tabulated in that form [shape not read by the rule]' % seeks_first[0][2],
                          function=f.sig, expr='header.word1.parameter_block')
            return
        res.viol(rule, 'header.word1.parameter_block', f.loc(), 'the header does not start by reading one unsigned byte at absolute offset 0 into _parametersAddress',
                 function=f.sig, expr='first-byte')
    else:
        res.ok(rule, 'header.word1.parameter_block', first['where'], 'unsigned byte at absolute offset 0', function=f.sig, expr='first-byte')
    idx = 1
    zl = ios[1] if len(ios) > 1 else None
    if zl and zl.get('k') == 'loop?':
        inner = [x[1] for x in zl['items'] if x[0] == 'io']
        okz = any(d.get('k') == 'readUint' and d.get('dest') == 'this._parametersAddress' and width_const(d) == 1 and 'skip' not in d for d in inner)
        # the counter
        zf = zl.get('fn') or f     # the loop may live in a member the reader was split into
        cnt = False
        for n in zf.nodes:
            if n['k'] == 'UnaryOperator' and n['op'] == '++':
                m = zf.nodes[zf.strip(n['ch'][0], 'all')]
                if m['k'] == 'MemberExpr' and m['member'] == '_nbOfZerosBeforeHeader' and n['id'] in zf.descendants(zl['node']):
                    cnt = True
        loopn = zf.nodes[zl['node']]
        cond = Renderer(zf).render(loopn['cond']) if 'cond' in loopn else ''
        WHILE0 = ('!((bool)this._parametersAddress)', '(this._parametersAddress == 0)', '(0 == this._parametersAddress)', '!(this._parametersAddress != 0)')
        UNTIL = ('(bool)this._parametersAddress', '(this._parametersAddress != 0)', '(0 != this._parametersAddress)', '!(this._parametersAddress == 0)', '(this._parametersAddress > 0)')
        form = cond in WHILE0
        if not form and cond == '' and 'body' in loopn:
            # for (;;) { if (<non-zero>) break; ... }
            b_ = zf.nodes[loopn['body']]
            st0 = zf.nodes[b_['ch'][0]] if b_['k'] == 'CompoundStmt' and b_['ch'] else None
            if st0 is not None and st0['k'] == 'IfStmt' and 'else' not in st0:
                th_ = zf.nodes[st0['then']]
                only_break = th_['k'] == 'BreakStmt' or (th_['k'] == 'CompoundStmt' and len(th_['ch']) == 1 and zf.nodes[th_['ch'][0]]['k'] == 'BreakStmt')
                if only_break and Renderer(zf).render(st0['cond']) in UNTIL:
                    form = True
        if okz and cnt and form:
            res.ok(rule, 'header.leading_zeros', zl['where'], 'zero bytes before the header are skipped one at a time and counted in _nbOfZerosBeforeHeader', function=f.sig, expr='zero-skip')
        elif okz and cnt:
            res.undecided(rule, 'header.leading_zeros', zl['where'], 'the leading-zero loop re-reads one byte into _parametersAddress and counts it, but its exit test (%s) is in a form the rule does not read [shape not read by the rule]' % (cond or 'inside the body'),
                          function=f.sig, expr='zero-skip')
        else:
            res.viol(rule, 'header.leading_zeros', zl['where'], 'leading-zero loop does not (re-read one byte into _parametersAddress while it is 0 and count it): cond=%s' % cond,
                     function=f.sig, expr='zero-skip')
        idx = 2
    else:
        res.viol(rule, 'header.leading_zeros', f.loc(), 'no leading-zero skipping loop after the first byte (Vicon files with zero bytes before the header are declared supported)',
                 function=f.sig, expr='zero-skip')
    # 2. the remaining fields, by cumulative offset relative to the first non-zero byte
    items = [d for d in ios[idx:] if d.get('k') in codec.READERS]
    strange = [d for d in ios[idx:] if d.get('k') in ('loop?', 'alt') and any(x[0] == 'io' and x[1].get('k') in codec.READERS for x in _walk(d))]
    for d in strange:
        res.undecided(rule, 'header layout', d['where'], 'reads under a condition or in a loop with unknown trip count', function=f.sig, expr='shape')
    off = 1
    ii = 0
    nfields = 0
    for fld in spec['header'][1:]:
        want_off = (fld['word'] - 1) * 2 + (fld.get('byte', 1) - 1)
        total = fld['bytes'] * fld['count']
        inst = 'header.word%d.%s' % (fld['word'], fld['name'])
        got = []
        acc = 0
        while ii < len(items) and acc < total:
            d = items[ii]
            w = width_const(d)
            if w is None:
                break
            got.append(d)
            acc += w * d['rep']
            ii += 1
        nfields += 1
        if off != want_off or acc != total:
            res.viol(rule, inst, got[0]['where'] if got else f.loc(),
                     'specified at byte %d, %d bytes; the reader is at byte %d and consumes %d bytes here' % (want_off, total, off, acc), function=f.sig, expr=inst)
            off += acc
            continue
        off += acc
        bad = None
        for d in got:
            dest = d.get('dest') or ''
            m = re.match(r'^this\.(\w+)', dest)
            if not m and not re.match(r'^arg\d', dest) and not dest.startswith('copy('):
                und_ = 'value goes to %s on its way to %s: an intermediate the rule does not follow' % (dest or 'a temporary', fld['member'])
                bad = None
                res.undecided(rule, inst, d['where'], und_ + ' [shape not read by the rule]', function=f.sig, expr=inst)
                got = []
                break
            if not m or m.group(1) != fld['member']:
                bad = 'value is stored to %s, the field is %s' % (dest, fld['member'])
            elif fld['type'] == 'u' and d['sign'] != 'u':
                bad = 'unsigned field read with %s' % d['k']
            elif fld['type'] == 'f' and d['sign'] != 'f':
                if fld['name'] == 'scale' and int_scale_ok and d['sign'] == 's' and width_const(d) == 4:
                    pass   # only the sign of the scale is ever used (float-format marker): see sign_only_scale
                else:
                    bad = 'REAL field read with %s' % d['k']
            elif fld['type'] == 'c' and d['sign'] != 'c':
                bad = 'character field read with %s' % d['k']
            post = [p for p in (d.get('post') or []) if p[0] != 'cast']
            if bad is None and fld.get('one_based'):
                if post != [('op', '-', '1')]:
                    bad = '1-based frame number must be converted with -1 (found %s)' % post
            elif bad is None and post:
                bad = 'value is transformed on load: %s' % post
            if bad is None and fld['type'] in ('u', 'f', 'c') and fld['count'] > 1 and (width_const(d) != fld['bytes']):
                bad = 'element width %s, specified %d' % (width_const(d), fld['bytes'])
            if bad:
                break
        if bad:
            res.viol(rule, inst, got[0]['where'], bad, function=f.sig, expr=inst, facts={'cite': fld['cite']})
        elif got:
            res.ok(rule, inst, got[0]['where'], '%d byte(s) at offset %d -> %s (%s)' % (total, want_off, fld['member'], fld['type']), function=f.sig, expr=inst)
    if ii != len(items):
        res.viol(rule, 'header.tail', items[ii]['where'], 'reader consumes bytes beyond the 512-byte header', function=f.sig, expr='tail')
    res.minimum('header fields compared (reader)', nfields, 21)


def _walk(d):
    st = list(d.get('items', [])) + list(d.get('then', [])) + list(d.get('else', []))
    while st:
        x = st.pop()
        yield x
        if x[0] in ('loop',):
            st.extend(x[3])
        elif x[0] == 'alt':
            st.extend(x[2])
            st.extend(x[3])
        elif x[0] == 'call':
            st.extend(x[3])


def header_writer_rule(prog, res, rule='header-write', int_scale_ok=False):
    spec = load_spec()
    f = prog.fn('ezc3d::Header::write', nparams=1)
    ex = codec.Extractor(prog, 'w')
    flat, _ = flatten(prog, ex.seq_of(f), 'ezc3d::Header')
    items = []
    for d in flat:
        if d.get('k') == 'write':
            items.append(d)
        elif d.get('k') in ('loop?', 'alt') and any(x[0] == 'io' for x in _walk(d)):
            items.append(dict(d, k='barrier'))
    off = 0
    ii = 0
    nfields = 0
    lost = None
    for fld in spec['header']:
        want_off = (fld['word'] - 1) * 2 + (fld.get('byte', 1) - 1)
        total = fld['bytes'] * fld['count']
        inst = 'header.word%d.%s' % (fld['word'], fld['name'])
        got = []
        acc = 0
        while lost is None and ii < len(items) and acc < total:
            d = items[ii]
            w = width_const(d) if d.get('k') == 'write' else None
            if w is None:
                lost = d
                break
            got.append(d)
            acc += w * d['rep']
            ii += 1
        nfields += 1
        if lost is not None:
            res.undecided(rule, inst, lost['where'], 'the byte position of this field cannot be tabulated: the writer emits %s before it' %
                          ('bytes under a condition or in a loop with unknown trip count' if lost.get('k') == 'barrier' else 'a buffer of non-constant length (%s)' % lost.get('src')),
                          function=f.sig, expr=inst)
            continue
        opq = [d for d in got if d.get('srck') == 'other' or (d.get('srck') == 'array' and d.get('src_from') is None)]
        if opq and off == want_off:
            # a local buffer filled elsewhere: its content is not tabulated, its length is
            res.undecided(rule, inst, opq[0]['where'], 'emitted from the local buffer %s, whose content the extractor does not tabulate' % opq[0].get('src'), function=f.sig, expr=inst)
            off += acc
            if acc > total:
                # the buffer also covers following fields: consume them
                pass
            continue
        if off != want_off or acc != total:
            res.viol(rule, inst, got[0]['where'] if got else f.loc(),
                     'specified at byte %d, %d bytes; the writer is at byte %d and emits %d bytes here' % (want_off, total, off, acc), function=f.sig, expr=inst)
            off += acc
            continue
        off += acc
        bad = None
        for d in got:
            src = d.get('src_from') or d.get('src') or ''
            vals = d.get('src_vals')
            if 'written' in fld:
                want = int(fld['written'].split(':')[1])
                if not vals or any(not (set(v.keys()) <= {()} and v.get((), 0) == want) for v in vals):
                    bad = 'must be written as the constant %d' % want
                continue
            base = 'this.' + fld['member']
            if d.get('src_cond'):
                off_ = [(c_, s_) for c_, s_ in d['src_cond'] if not (s_ == base or s_.startswith(base + '['))]
                if off_:
                    bad = 'emitted from %s when %s; the field is %s: what the member holds is not written in that case' % (off_[0][1], off_[0][0][:120], fld['member'])
                continue
            if d.get('src_local') is not None:
                # a local: its value must be the member (+1 for 1-based fields)
                wantp = P.add({(base,): 1}, P.const(1 if fld.get('one_based') else 0))
                if not vals or any(not P.equal(v, wantp) for v in vals):
                    bad = 'emitted value is %s, expected %s' % ('|'.join(P.show(v) for v in (vals or [])) or '?', P.show(wantp))
            else:
                if fld.get('one_based') and src.replace(' ', '') in ('(%s+1)' % base, '(1+%s)' % base, '(unsignedlong)(%s+1)' % base):
                    pass      # the value member + 1 handed over as a temporary
                elif not (src == base or src.startswith(base + '[')) and re.search(r'\b%s\b' % re.escape(base), src) and d.get('srck') in ('string', 'other', 'array'):
                    und_src = src
                    bad = None
                    res.undecided(rule, inst, d['where'], 'emitted from %s: derived from %s through an expression the rule does not tabulate [shape not read by the rule]' % (src[:120], fld['member']),
                                  function=f.sig, expr=inst)
                    got = []
                    break
                elif not (src == base or src.startswith(base + '[')):
                    bad = 'emitted from %s, the field is %s' % (src, fld['member'])
                elif fld.get('one_based'):
                    bad = '1-based frame number must be written as member + 1'
            if bad is None and fld['type'] == 'f' and d.get('srck') == 'object' and not (d.get('src_tc') == 'f' and d.get('src_tw') == 32) and \
                    not (fld['name'] == 'scale' and int_scale_ok and d.get('src_tw') == 32):
                bad = 'REAL field emitted from a non-float object (%s/%s bits): the bytes are not an IEEE float' % (d.get('src_tc'), d.get('src_tw'))
            if bad is None and fld['type'] in ('u', 's') and d.get('srck') == 'object' and d.get('src_tc') == 'f':
                bad = 'integer field emitted from a floating-point object'
            if bad is None and fld['type'] == 'c':
                if d.get('srck') == 'array':
                    cn = d.get('copy_n')
                    if d.get('src_from') is None or cn is None or not (set(cn.keys()) <= {()} and cn.get((), 0) <= fld['bytes']):
                        bad = 'label cell is not filled from the label string with a bounded copy'
                    elif cn.get((), 0) < fld['bytes']:
                        bad = 'only %d of the %d characters of the label cell are copied from the label: the rest of a stored label is not written' % (cn.get((), 0), fld['bytes'])
                    else:
                        # string::copy writes min(n, size) characters: the cell must be cleared for every label,
                        # i.e. the zero-initialised array is declared inside the loop that writes it
                        fn_ = d['fn']
                        wn = d['node']
                        decl_stmt = None
                        for x in fn_.all_nodes({'DeclStmt'}):
                            for dd_ in x['decls']:
                                if 'local:' + dd_['name'] == d.get('src'):
                                    decl_stmt = x
                        loops_w = [a_ for a_ in fn_.ancestors(wn) if fn_.nodes[a_]['k'] in ('ForStmt', 'CXXForRangeStmt', 'WhileStmt', 'DoStmt')]
                        if decl_stmt is not None and loops_w and decl_stmt['id'] not in fn_.descendants(loops_w[0]):
                            refill = [c_ for c_ in fn_.calls() if c_['callee']['name'] in ('memset', 'fill', 'fill_n') and c_['id'] in fn_.descendants(loops_w[0])]
                            if not refill:
                                bad = 'the label cell `%s` is declared (and zeroed) once, outside the loop that fills and writes it: a label shorter than the previous one keeps the tail of the previous label' % d.get('src')
                elif d.get('srck') == 'string':
                    bad = None   # width == size is judged by the definedness rule (C13/C14)
            if bad:
                break
        if bad:
            res.viol(rule, inst, got[0]['where'], bad, function=f.sig, expr=inst, facts={'cite': fld['cite']})
        elif got:
            res.ok(rule, inst, got[0]['where'], '%d byte(s) at offset %d <- %s' % (total, want_off, fld['member']), function=f.sig, expr=inst)
    if lost is not None:
        pass
    elif ii != len(items):
        res.viol(rule, 'header.tail', items[ii]['where'], 'writer emits more than the 512-byte header', function=f.sig, expr='tail')
    elif off != 512:
        res.viol(rule, 'header.size', f.loc(), 'header writer emits %d bytes, not 512' % off, function=f.sig, expr='size')
    res.minimum('header fields compared (writer)', nfields, 22)


# ---------------------------------------------------------------------------------------------
# generic helpers for record / frame comparison

def ps(s):
    """parse a tiny polynomial notation 'a + -1*b + 3' into the canonical P.show string"""
    return s


def pshow(p):
    return P.show(p) if p is not None else '?'


STRUCTURAL = ('::write', '::writeImbricatedParameter', '::read', '::readParam', '::_readMatrix', '::_dispatchMatrix', '::parameter', '::Parameters', '::Data', '::Header')


def io_only(items):
    out = []
    for it in items:
        if it[0] not in ('io', 'loop', 'alt', 'call', 'slot', 'rec'):
            continue
        if it[0] == 'call':
            if not it[3]:
                continue
            q = it[1].qname
            if not q.endswith(STRUCTURAL) or it[1].cls is None:
                # a helper (file-local or private) that the rules do not name: its I/O counts as the caller's
                out.extend(io_only(it[3]))
                continue
        out.append(it)
    return out


def setter_target(prog, usr):
    """for a one-argument setter whose body is `member... = arg0`: the rendered target"""
    f = prog.funcs.get(usr)
    if f is None or len(f.params) != 1:
        return None
    R = Renderer(f)
    tg = None
    for n in f.nodes:
        if n['k'] == 'BinaryOperator' and n['op'] == '=':
            if R.render(n['ch'][1]) == 'arg0' or re.sub(r'^\([^)]*\)', '', R.render(n['ch'][1])) == 'arg0':
                if tg is not None:
                    return None
                tg = R.render(n['ch'][0])
    return tg


_UPPER_OK = {}


def toupper_keeps_length(prog):
    """ezc3d::toUpper returns a string of the same length as its argument: its body only copies the argument and transforms the
    characters in place (no erase / resize / substr / trimming)"""
    key = id(prog)
    if key not in _UPPER_OK:
        ok = False
        try:
            f = prog.fn('ezc3d::toUpper', nparams=1)
            names = {c['callee']['name'] for c in f.calls()}
            ok = f.body is not None and not (names & {'erase', 'resize', 'substr', 'pop_back', 'removeTrailingSpaces', 'assign', 'clear', 'push_back', 'append', 'insert', 'operator+=', 'replace'}) and \
                ('transform' in names or 'toupper' in names)
            if ok:
                # what is handed back is a plain copy of the argument (then transformed in place), not a part of it
                from paths import local_init as _liu
                rets = [f.nodes[f.strip(r_['ch'][0], 'all')] for r_ in f.all_nodes({'ReturnStmt'}) if r_.get('ch')]
                ok = bool(rets)
                for r_ in rets:
                    if r_['k'] == 'DeclRefExpr' and r_['decl'].get('dk') == 'local':
                        ini = _liu(f, r_['decl']['id'])
                        src = f.nodes[f.strip(ini, 'all')] if ini is not None else None
                        if src is None or not (src['k'] == 'DeclRefExpr' and src['decl'].get('dk') == 'param'):
                            ok = False
                    else:
                        ok = False
        except Exception:
            ok = False
        _UPPER_OK[key] = ok
    return _UPPER_OK[key]


def upper_len_norm(prog, txt):
    """`ezc3d::toUpper(E).size` is `E.size` when toUpper keeps the length"""
    if txt is None or 'toUpper(' not in str(txt) or not toupper_keeps_length(prog):
        return txt
    prev = None
    t = str(txt)
    while prev != t:
        prev = t
        t = re.sub(r'ezc3d::toUpper\(((?:[^()]|\([^()]*\))*)\)\.size', r'\1.size', t)
    return t


class Checker:
    """sequential matcher over one level of an item tree; each expectation is one obligation"""

    def __init__(self, prog, res, rule, fn, items, prefix):
        self.prog, self.res, self.rule, self.fn, self.prefix = prog, res, rule, fn, prefix
        self.items = io_only(items)
        # calls that involve the medium but in which the extractor saw no I/O (a recursion it does not unfold, a callable handed down)
        self.hidden_calls = [it[1].name for it in items if it[0] == 'call' and not it[3]]
        self.i = 0
        self.failed = False

    def where(self, it=None):
        if it is None:
            return self.fn.loc()
        if it[0] == 'io':
            return it[1]['where']
        if it[0] in ('loop', 'alt', 'call'):
            return it[5].loc(it[4])
        if it[0] == 'slot':
            return it[4].loc(it[3])
        return self.fn.loc()

    def peek(self):
        return self.items[self.i] if self.i < len(self.items) else None

    def take(self, kinds):
        it = self.peek()
        if it is None or it[0] not in kinds:
            return None
        self.i += 1
        return it

    def ok(self, slot, where, detail=''):
        self.res.ok(self.rule, '%s.%s' % (self.prefix, slot), where, detail, function=self.fn.sig, expr='%s.%s' % (self.prefix, slot))

    def bad(self, slot, where, detail, facts=None):
        # "expected X, found Y" where Y contains I/O the extractor cannot tabulate (an unknown buffer,
        # an uncounted loop, ...) is an unknown idiom, not a demonstrated mismatch
        global _LAST
        nx_ = self.peek()
        if getattr(self, 'seen_unknown', False) and 'expected' in detail and 'found' in detail:
            # an earlier output of this sequence could not be tabulated (a buffer, a helper): it may well carry the bytes that are looked for here
            _LAST = None
            return self.shape(slot, where, detail + ' (an earlier output of this sequence is in a form the extractor does not tabulate and may hold this field)')
        if 'end of sequence' in detail and nx_ is not None and nx_[0] == 'loop' and any(isinstance(x_, tuple) and x_[0] == 'io' for x_ in _walk({'items': [nx_]})):
            _LAST = None
            return self.shape(slot, where, detail.replace('end of sequence', 'a loop that performs I/O') + ' (the field may be handled inside that loop)')
        if 'end of sequence' in detail and nx_ is not None and nx_[0] == 'call':
            _LAST = None
            return self.shape(slot, where, detail.replace('end of sequence', 'a call of %s' % nx_[1].name) + ' (the field is emitted through another function of the writer family)')
        if 'end of sequence' in detail and getattr(self, 'hidden_calls', None):
            _LAST = None
            return self.shape(slot, where, detail + ' (the sequence calls %s, in which the extractor sees no I/O of its own)' % ', '.join(self.hidden_calls))
        if _LAST is not None and _LAST[0] in detail and not recognisable(_LAST[1]):
            _LAST = None
            return self.unknown(slot, where, detail + ' [contains I/O in a form the extractor does not tabulate]')
        _LAST = None
        self.failed = True
        self.res.viol(self.rule, '%s.%s' % (self.prefix, slot), where, detail, function=self.fn.sig, expr='%s.%s' % (self.prefix, slot), facts=facts)

    def unknown(self, slot, where, detail):
        """the code uses an I/O idiom the extractor does not model: the table cannot be compared"""
        self.failed = True
        self.seen_unknown = True
        self.res.undecided(self.rule, '%s.%s' % (self.prefix, slot), where, detail, function=self.fn.sig, expr='%s.%s' % (self.prefix, slot))

    def shape(self, slot, where, detail):
        """the code is not in the shape this expectation reads (no demonstrated mismatch of a field)"""
        return self.unknown(slot, where, detail + ' [shape not read by the rule]')

    def want_loop(self, slot, lp, reps, what):
        """lp must be a counted loop whose trip count is one of `reps` (renderings).  A counted loop with
        another recognisable trip count is a demonstrated mismatch; anything else is an unknown shape."""
        if lp is not None and lp[0] == 'loop' and lp[1] is not None and pshow(lp[1]) in reps:
            return True
        if lp is not None and lp[0] == 'loop' and lp[1] is not None and recognisable(lp):
            self.bad(slot, self.where(lp), '%s: the loop runs %s times, specified %s' % (what, pshow(lp[1]), reps[0]))
        elif lp is None or (lp[0] == 'io' and recognisable(lp)) or lp[0] == 'slot':
            # nothing / the next plain field comes where the repeated part should be: it is missing
            self.bad(slot, self.where(lp), '%s; it is missing (next: %s)' % (what, _describe(lp)))
        else:
            self.shape(slot, self.where(lp), '%s, found %s' % (what, _describe(lp)))
        return False

    def skip_slots(self):
        out = []
        while self.peek() is not None and self.peek()[0] == 'slot':
            out.append(self.take(('slot',)))
        return out

    # -- writer expectations ------------------------------------------------------------------
    def w_object(self, slot, width, vals=None, cases=None, src=None, tc=None, min_bits=None, cite=None):
        it = self.take(('io',))
        if it is not None and (it[1].get('k') not in ('write',) or it[1].get('srck') == 'other'):
            self.unknown(slot, self.where(it), 'output through %s of %s: not a write(&object, n) the extractor can tabulate' % (it[1].get('k'), it[1].get('src')))
            return None
        if it is None or it[1].get('k') != 'write' or it[1].get('srck') != 'object':
            self.bad(slot, self.where(it), 'expected a write of a %d-byte field here, found %s' % (width, describe(it)), facts={'cite': cite})
            return None
        d = it[1]
        w = d.get('width')
        if w is None or pshow(w) != str(width):
            alts = d.get('width_alts') or []
            self.bad(slot, d['where'], 'field is %d byte(s) wide, %s byte(s) are written' % (width, '/'.join(pshow(a) for a in alts) or pshow(w)), facts={'cite': cite})
            return d
        if vals is not None:
            got = d.get('src_vals')
            if got is None:
                got = [{(d['src'],): 1}]
            gs = sorted(pshow(g) for g in got)
            if pshow(w) in ('1', '2'):
                # the low byte(s) of E and of E converted to an integer type at least that wide are the same bytes
                wide = '(?:unsigned |signed )?(?:char|short|int|long|long long)|unsigned long|size_t' if pshow(w) == '1' else '(?:unsigned |signed )?(?:short|int|long|long long)|unsigned long|size_t'
                gs = sorted(re.sub(r'^(?:\((?:%s)\))+' % wide, '', g_) for g_ in gs)
            if gs != sorted(vals):
                self.bad(slot, d['where'], 'value written is %s, specified %s' % (' | '.join(gs), ' | '.join(vals)), facts={'cite': cite})
                return d
        if cases is not None:
            got = d.get('src_cases') or []
            want = sorted((v, tuple(sorted(c.items()))) for v, c in cases)
            have = sorted((pshow(v), tuple(sorted(c.items()))) for v, c in got)
            if want != have:
                if any(re.search(r'\((?:unsigned |signed )?(?:char|short)\)(?:local:|arg\d|this\.)', str(v_)) for v_, _c in have) and pshow(d.get('width')) == '1':
                    # the low byte taken by a narrowing conversion instead of by address: the same byte, but the value behind the
                    # conversion is not tabulated per condition
                    self.shape(slot, d['where'], 'the byte written is %s: a narrowing conversion of a value the rule does not follow per condition' % [v_ for v_, _c in have])
                    return d
                self.bad(slot, d['where'], 'value written per condition is %s, specified %s' % (have, want), facts={'cite': cite})
                return d
        if src is not None and d.get('src') != src:
            self.bad(slot, d['where'], 'emitted from %s, specified %s' % (d.get('src'), src), facts={'cite': cite})
            return d
        if tc is not None and not (d.get('src_tc') == tc[0] and d.get('src_tw') == tc[1]):
            self.bad(slot, d['where'], 'emitted from an object of class %s/%s bits, specified %s/%d' % (d.get('src_tc'), d.get('src_tw'), tc[0], tc[1]), facts={'cite': cite})
            return d
        self.ok(slot, d['where'], '%d byte(s) <- %s' % (width, d.get('src')))
        return d

    def w_string(self, slot, src, width, cite=None):
        it = self.take(('io',))
        if it is None or it[1].get('k') != 'write' or it[1].get('srck') != 'string':
            self.bad(slot, self.where(it), 'expected the characters of %s here, found %s' % (src, describe(it)), facts={'cite': cite})
            return None
        d = it[1]
        if d.get('src') != src:
            self.bad(slot, d['where'], 'characters come from %s, specified %s' % (d.get('src'), src), facts={'cite': cite})
            return d
        if upper_len_norm(self.prog, pshow(d.get('width'))) != width:
            self.bad(slot, d['where'], '%s byte(s) are written, specified %s' % (pshow(d.get('width')) if d.get('width') is not None else '/'.join(pshow(a) for a in d.get('width_alts', [])), width), facts={'cite': cite})
            return d
        self.ok(slot, d['where'], '%s characters of %s' % (width, src))
        return d

    def slot_open(self, slot, width, cite=None):
        """tell -> var ; write of `width` zero bytes"""
        sl = self.take(('slot',))
        if sl is None or sl[1] != 'tell':
            self.bad(slot, self.where(sl), 'expected the stream position to be remembered before the placeholder', facts={'cite': cite})
            return None
        var = sl[2]
        d = self.w_object(slot + '.placeholder', width, vals=['0'])
        return var

    def slot_patch(self, slot, var, width, value=None):
        """tell -> end ; seek var ; write(width') ; seek end"""
        t = self.take(('slot',))
        ends = [t[2]] if t and t[1] == 'tell' else []
        # remembering the position again (e.g. inside a helper that does the patch) does not move the stream
        while t and t[1] == 'tell' and self.peek() is not None and self.peek()[0] == 'slot' and self.peek()[1] == 'tell':
            t = self.take(('slot',))
            ends.append(t[2])
        s1 = self.take(('slot',))
        if not t or not s1 or t[1] != 'tell' or s1[1] != 'seek':
            self.bad(slot + '.patch', self.where(t or s1), 'expected tell(end) / seek(slot) before the back-patch')
            return None
        end = t[2]
        if s1[2] != var:
            self.bad(slot + '.patch', self.where(s1), 'back-patch seeks to %s, the slot was opened at %s' % (s1[2], var))
            return None
        it = self.take(('io',))
        if it is None or it[1].get('k') != 'write':
            self.bad(slot + '.patch', self.where(it), 'no write after seeking to the slot')
            return None
        d = it[1]
        w = d.get('width')
        wc = w.get((), 0) if w is not None and set(w.keys()) <= {()} else None
        if wc is None or wc > width or wc < 1:
            self.bad(slot + '.patch', d['where'], 'patch writes %s byte(s) into a %d-byte slot' % (pshow(w), width))
            return None
        s2 = self.take(('slot',))
        if s2 and s2[1] == 'seek' and s2[2] in ends:
            end = s2[2]
        if not s2 or s2[1] != 'seek' or s2[2] != end:
            self.bad(slot + '.patch', self.where(s2) if s2 else d['where'], 'stream is not re-positioned to the remembered end (%s) after the patch' % end)
            return None
        if value is not None:
            got = sorted(pshow(v) for v in (d.get('src_vals') or []))
            if got != sorted(v.replace('$end', end).replace('$slot', var) for v in value):
                self.bad(slot + '.patch', d['where'], 'patched value is %s, expected %s' % (got, value))
                return None
        self.ok(slot + '.patch', d['where'], '%d of %d byte(s) patched at %s, stream restored to %s' % (wc, width, var, end))
        return {'end': end, 'patch_width': wc, 'item': d}

    def done(self, slot='tail'):
        rest = [it for it in self.items[self.i:] if it[0] in ('io', 'loop', 'alt', 'call')]
        if rest:
            self.bad(slot, self.where(rest[0]), 'unexpected extra I/O after the last specified field: %s' % describe(rest[0]))
        elif not self.failed:
            self.ok(slot, self.fn.loc(), 'no further I/O')


NEG = {'==': '!=', '!=': '==', '<': '>=', '>=': '<', '>': '<=', '<=': '>'}


def negate(cond):
    m = re.match(r'^\((.*) (==|!=|<|>=|>|<=) (.*)\)$', cond)
    if m and m.group(1).count('(') == m.group(1).count(')'):
        return '(%s %s %s)' % (m.group(1), NEG[m.group(2)], m.group(3))
    if cond.startswith('!(') and cond.endswith(')'):
        return cond[2:-1]
    return '!(%s)' % cond


def orient(alt, canonical):
    """(then items, else items) of alternative `alt` as if its condition were one of `canonical`
    (a string or tuple of equivalent strings); None when it is neither that nor its negation"""
    cs = (canonical,) if isinstance(canonical, str) else tuple(canonical)
    if alt[1] in cs:
        return alt[2], alt[3]
    if alt[1] in tuple(negate(c) for c in cs) or negate(alt[1]) in cs:
        return alt[3], alt[2]
    return None


def describe(it):
    global _LAST
    t = _describe(it)
    _LAST = (t, it)
    return t


def recognisable(it):
    """every leaf of the item is a read/write whose source, width and trip counts the extractor tabulates"""
    if it is None:
        return True
    if it[0] == 'io':
        d = it[1]
        if d.get('k') == 'write':
            return d.get('srck') in ('object', 'string', 'zeros') and (d.get('width') is not None or bool(d.get('width_alts')))
        return True
    if it[0] == 'loop':
        return it[1] is not None and all(recognisable(x) for x in it[3])
    if it[0] == 'alt':
        return all(recognisable(x) for x in it[2]) and all(recognisable(x) for x in it[3])
    if it[0] == 'call':
        return all(recognisable(x) for x in it[3])
    if it[0] == 'rec':
        return False
    return True


_LAST = None


def _describe(it):
    if it is None:
        return 'end of sequence'
    if it[0] == 'io':
        d = it[1]
        return '%s of %s (%s byte(s))' % (d.get('k'), d.get('src') or d.get('dest'), pshow(d.get('width')) if d.get('width') is not None else '?')
    if it[0] == 'loop':
        return 'a loop x(%s)' % pshow(it[1])
    if it[0] == 'alt':
        return 'a branch on %s' % it[1]
    if it[0] == 'call':
        return 'a call of %s' % it[1].qname
    if it[0] == 'slot':
        return '%s(%s)' % (it[1], it[2])
    return it[0]


def rec_layout(spec, kind):
    return {s['name']: s for s in spec['group_record' if kind == 'group' else 'parameter_record']}


def record_prefix_writer(ck, spec, kind, id_value):
    """name_len, id, name, next-slot of a group/parameter record writer; returns slot variable"""
    L = rec_layout(spec, kind)
    ck.w_object('name_len', 1, cases=[('-1*this._name.size', {'this._isLocked': True}), ('this._name.size', {'this._isLocked': False})], cite=L['name_len']['cite'])
    ck.w_object('id', 1, vals=[id_value], cite=L['id']['cite'])
    ck.w_string('name', 'ezc3d::toUpper(this._name)', 'this._name.size', cite=L['name']['cite'])
    return ck.slot_open('next', 2, cite=L['next']['cite'])


def group_writer_rule(prog, res, rule='group-write'):
    spec = load_spec()
    f = prog.fn('ezc3d::ParametersNS::GroupNS::Group::write', nparams=3)
    seq = codec.Extractor(prog, 'w').seq_of(f)
    ck = Checker(prog, res, rule, f, seq, 'group')
    L = rec_layout(spec, 'group')
    var = record_prefix_writer(ck, spec, 'group', 'arg1')
    ck.w_object('desc_len', 1, vals=['this._description.size'], cite=L['desc_len']['cite'])
    ck.w_string('desc', 'this._description', 'this._description.size', cite=L['desc']['cite'])
    if var is not None:
        ck.slot_patch('next', var, 2, value=['$end.operator-($slot)'])
    lp = ck.take(('loop',)) or ck.peek()
    if not ck.want_loop('parameters', lp, ['this._parameters.size'], 'expected one parameter record per parameter of the group'):
        pass
    else:
        inner = io_only(lp[3])
        if len(inner) == 1 and inner[0][0] == 'call' and inner[0][1].qname.endswith('Parameter::write'):
            sub = {k_: (re.sub(r'(local:\w+)@\d+', r'\1', v_) if isinstance(v_, str) else v_) for k_, v_ in inner[0][2].items()}     # locals of an inlined member carry a scope suffix
            lp = tuple(lp[:2]) + (re.sub(r'@\d+$', '', lp[2]) if isinstance(lp[2], str) else lp[2],) + tuple(lp[3:])
            if sub.get('arg1') in ('-(arg1)', '-arg1') and sub.get('arg0') == 'arg0' and sub.get('arg2') == 'arg2' and sub.get('this') in ('this.parameter(local:%s)' % lp[2], 'this._parameters[local:%s]' % lp[2], 'this._parameters[(unsigned long)local:%s]' % lp[2], 'this._parameters.at(local:%s)' % lp[2]):
                ck.ok('parameters', ck.where(lp), 'parameter(i).write(f, -groupIdx, dataStart) for i in [0, nbParameters)')
            else:
                ck.bad('parameters', ck.where(lp), 'parameter records are written with %s (expected element i, stream, -groupIdx, the DATA_START position)' % sub)
        else:
            ck.shape('parameters', ck.where(lp), 'loop body is not exactly one Parameter::write call')
    ck.done()


def recursion_scheme(prog, f, cur_param, dim_param, leaf_kind):
    """f(cur):  for (i < dim[cur]) { if (cur == dim.size()-1) LEAF else f(.., cur+1, ..) }
    or, with the depth test hoisted out of the loop,
                if (cur == dim.size()-1) { for (i < dim[cur]) LEAF } else { for (i < dim[cur]) f(.., cur+1, ..) }
    ->  (ok, detail, leaf items).  cur_param/dim_param are parameter indices.  A detail starting with
    'shape: ' means the function is not in either shape (nothing demonstrated)."""
    seq = io_only(codec.Extractor(prog, leaf_kind).seq_of(f))
    top = [it for it in seq if it[0] in ('loop', 'io', 'alt', 'call')]
    LEAFTEST = ('(arg%d == (arg%d.size - 1))' % (cur_param, dim_param), '((arg%d.size - 1) == arg%d)' % (dim_param, cur_param))
    BOUND = 'arg%d[arg%d]' % (dim_param, cur_param)

    def rec_ok(els):
        if len(els) != 1 or els[0][0] != 'call' or els[0][1].usr != f.usr:
            return 'shape: non-leaf branch is not exactly the recursive call'
        sub = els[0][2]
        if sub.get('arg%d' % cur_param) != '(arg%d + 1)' % cur_param or sub.get('arg%d' % dim_param) != 'arg%d' % dim_param:
            return 'recursive call passes %s / %s, expected (dim, currentIdx + 1)' % (sub.get('arg%d' % dim_param), sub.get('arg%d' % cur_param))
        return None
    if len(top) == 1 and top[0][0] == 'loop':
        lp = top[0]
        if lp[1] is None:
            return False, 'shape: the loop is not a counted loop over dim[currentIdx] (trip count not tabulated)', None
        if pshow(lp[1]) != BOUND:
            return False, 'loop bound is %s, expected dim[currentIdx]' % pshow(lp[1]), None
        inner = io_only(lp[3])
        if len(inner) != 1 or inner[0][0] != 'alt':
            return False, 'shape: loop body is not a single if/else on the recursion depth', None
        o = orient(inner[0], LEAFTEST)
        if o is None:
            if re.match(r'^[()!=<> \d]*(?:(?:arg%d\.size|arg%d|- 1|\+ 1)[()!=<> \d]*)+$' % (dim_param, cur_param), inner[0][1]):
                return False, 'leaf test is %s, expected currentIdx == dim.size()-1' % inner[0][1], None
            return False, 'shape: leaf test %s is not a comparison of the depth the rule reads' % inner[0][1], None
        why = rec_ok(io_only(o[1]))
        if why:
            return False, why, None
        return True, '', o[0]
    if len(top) == 1 and top[0][0] == 'alt':
        o = orient(top[0], LEAFTEST)
        if o is None:
            return False, 'shape: depth test %s is not currentIdx == dim.size()-1' % top[0][1], None
        lf_, rc_ = io_only(o[0]), io_only(o[1])
        if len(lf_) != 1 or lf_[0][0] != 'loop' or len(rc_) != 1 or rc_[0][0] != 'loop':
            return False, 'shape: the two depth branches are not one loop each', None
        for lp in (lf_[0], rc_[0]):
            if lp[1] is None:
                return False, 'shape: a depth branch is not a counted loop (trip count not tabulated)', None
            if pshow(lp[1]) != BOUND:
                return False, 'loop bound is %s, expected dim[currentIdx]' % pshow(lp[1]), None
        why = rec_ok(io_only(rc_[0][3]))
        if why:
            return False, why, None
        return True, '', lf_[0][3]
    return False, 'shape: body is neither a single loop nor a single depth test', None


def parameter_writer_rule(prog, res, rule='parameter-write'):
    spec = load_spec()
    f = prog.fn('ezc3d::ParametersNS::GroupNS::Parameter::write', nparams=3)
    L = rec_layout(spec, 'parameter')
    ex = codec.Extractor(prog, 'w')
    # do not splice writeImbricatedParameter: judged separately through the recursion scheme
    seq = ex.seq_of(f)
    ck = Checker(prog, res, rule, f, seq, 'parameter')
    var = record_prefix_writer(ck, spec, 'parameter', 'arg1')
    ck.w_object('type', 1, src='this._data_type', cite=L['type']['cite'])
    # scalar special case
    SC = ('((this._dimension.size == 1) && (this._dimension[0] == 1))', '((this._dimension[0] == 1) && (this._dimension.size == 1))')
    nx = ck.peek()
    hoisted_count = None
    if nx is not None and nx[0] == 'io' and nx[1].get('k') == 'write' and nx[1].get('src_cases') and len(nx[1]['src_cases']) == 2:
        # the count byte is computed first (0 for the scalar case, the number of dimensions otherwise) and written once;
        # the dimension bytes follow under the negated scalar test
        cs = nx[1]['src_cases']
        byc = {}
        for v_, cnd in cs:
            if len(cnd) == 1:
                (ck_, tv_), = cnd.items()
                byc[(ck_ in SC) and tv_ or (negate(ck_) in SC and not tv_)] = pshow(v_) if v_ is not None else None
        d0 = ck.w_object('ndims', 1, cite=L['ndims']['cite'])
        if d0 is not None:
            if byc.get(True) == '0' and byc.get(False) == 'this._dimension.size':
                ck.ok('ndims.scalar-test', d0['where'], 'scalar encoding iff dimension == [1] (count byte computed before the write)')
                hoisted_count = True
            elif set(byc) == {True, False}:
                ck.bad('ndims', d0['where'], 'the dimension-count byte is %s for dimension == [1] and %s otherwise; specified 0 and the number of dimensions' % (byc.get(True), byc.get(False)), facts={'cite': L['ndims']['cite']})
                hoisted_count = True
            else:
                ck.shape('ndims.scalar-test', d0['where'], 'the dimension-count byte depends on %s, which is not the scalar test the rule reads' % [list(c_) for _, c_ in cs])
                hoisted_count = True
    alt = ck.take(('alt',)) if hoisted_count is None or (ck.peek() is not None and ck.peek()[0] == 'alt') else None
    if hoisted_count and alt is not None:
        o = orient(alt, SC)
        if o is None:
            ck.shape('dims', ck.where(alt), 'the dimension bytes are written under %s, which is not the scalar test' % alt[1])
        elif io_only(o[0]):
            ck.bad('dims', ck.where(alt), 'dimension bytes are written in the scalar case (count byte 0)')
        else:
            c2 = Checker(prog, res, rule, f, o[1], 'parameter.matrix')
            lp = c2.take(('loop',)) or c2.peek()
            if c2.want_loop('dims', lp, ['this._dimension.size'], 'expected one byte per dimension'):
                c3 = Checker(prog, res, rule, f, lp[3], 'parameter.matrix')
                d = c3.w_object('dims', 1, cite=L['dims']['cite'])
                if d is not None and not re.match(r'^this\._dimension\[(\(unsigned long\))?local:%s\]$' % lp[2], d.get('src', '')):
                    c3.bad('dims', d['where'], 'dimension byte emitted from %s' % d.get('src'))
            c2.done()
            ck.failed = ck.failed or c2.failed
    elif hoisted_count:
        ck.shape('dims', ck.where(ck.peek()), 'expected the dimension bytes under the negated scalar test, found %s' % _describe(ck.peek()))
    elif alt is None:
        ck.shape('ndims', ck.where(ck.peek()), 'expected the scalar / dimension-list alternative, found %s' % _describe(ck.peek()))
    else:
        o = orient(alt, SC)
        prod_locals = set()
        Rw = Renderer(f)
        for n_ in f.all_nodes({'CompoundAssignOperator'}):
            if n_['op'] == '*=' and 'this._dimension[' in Rw.render(n_['ch'][1]):
                prod_locals.add(re.escape(Rw.render(n_['ch'][0])))
        atoms_re = '|'.join(['this\\._dimension\\.size', 'this\\._dimension\\[0\\]', '\\(unsigned long\\)', '\\(int\\)'] + sorted(prod_locals))
        if o is None and not re.match(r'^[()!&|=<> \d]*(?:(?:%s)[()!&|=<> \d]*)+$' % atoms_re, alt[1]):
            ck.shape('ndims.scalar-test', ck.where(alt), 'the scalar test %s is not a comparison of the dimension list the rule reads' % alt[1])
            o = (alt[2], alt[3])
        elif o is None:
            ck.bad('ndims.scalar-test', ck.where(alt), 'a parameter is written as a scalar (0 dimensions) when %s; the reader turns 0 dimensions into exactly [1], so '
                   'the test must be dimension == [1]' % alt[1], facts={'cite': L['ndims']['cite']})
            o = (alt[2], alt[3])
        else:
            ck.ok('ndims.scalar-test', ck.where(alt), 'scalar encoding iff dimension == [1]')
        alt = (alt[0], alt[1], o[0], o[1]) + tuple(alt[4:])
        c1 = Checker(prog, res, rule, f, alt[2], 'parameter.scalar')
        c1.w_object('ndims', 1, vals=['0'], cite=L['ndims']['cite'])
        c1.done()
        c2 = Checker(prog, res, rule, f, alt[3], 'parameter.matrix')
        c2.w_object('ndims', 1, vals=['this._dimension.size'], cite=L['ndims']['cite'])
        lp = c2.take(('loop',)) or c2.peek()
        if not c2.want_loop('dims', lp, ['this._dimension.size'], 'expected one byte per dimension'):
            pass
        else:
            c3 = Checker(prog, res, rule, f, lp[3], 'parameter.matrix')
            d = c3.w_object('dims', 1, cite=L['dims']['cite'])
            if d is not None and not re.match(r'^this\._dimension\[(\(unsigned long\))?local:%s\]$' % lp[2], d.get('src', '')):
                c3.bad('dims', d['where'], 'dimension byte emitted from %s' % d.get('src'))
        c2.done()
        ck.failed = ck.failed or c1.failed or c2.failed
    # payload
    alt = ck.take(('alt',))
    POS = ['(local:hasSize > 0)', '(local:hasSize != 0)', '(local:hasSize >= 1)']
    # ... or the count comes straight from a count helper:  H(_dimension) > 0
    import validators as _Vc
    for n_ in f.calls():
        if n_['k'] == 'CallExpr' and n_['callee'].get('inrepo') and _Vc.count_helper(prog, n_['callee']['usr']) is not None:
            hr = Renderer(f).render(n_['id'])
            POS += ['(%s > 0)' % hr, '(%s != 0)' % hr, '(%s >= 1)' % hr, '((int)%s > 0)' % hr]
    o = orient(alt, tuple(POS)) if alt is not None else None
    if alt is None or o is None:
        ck.shape('data', ck.where(alt or ck.peek()), 'expected the payload to be written iff the element count is positive, found %s' % _describe(alt or ck.peek()))
    elif io_only(o[1]):
        ck.bad('data', ck.where(alt), 'expected the payload to be written iff the element count is positive, found %s' % describe(alt))
    else:
        payload_writer(prog, res, rule, f, (alt[0], alt[1], o[0], o[1]) + tuple(alt[4:]), ck)
    ck.w_object('desc_len', 1, vals=['this._description.size'], cite=L['desc_len']['cite'])
    ck.w_string('desc', 'this._description', 'this._description.size', cite=L['desc']['cite'])
    if var is not None:
        ck.slot_patch('next', var, 2, value=['$end.operator-($slot)'])
    ck.done()
    # hasSize is the product of the dimensions (element count): structure of its computation
    has_size_rule(prog, res, rule, f)


def has_size_rule(prog, res, rule, f):
    R = Renderer(f)
    ok = False
    detail = 'cannot find `hasSize = 1; for (i < _dimension.size()) hasSize *= _dimension[i]` under `_dimension.size() > 0`'
    for n in f.all_nodes({'CompoundAssignOperator'}):
        if n['op'] == '*=' and R.render(n['ch'][0]) == 'local:hasSize':
            rhs = re.sub(r'^\((unsigned long|int)\)', '', R.render(n['ch'][1]))
            m = re.match(r'^this\._dimension\[(\(unsigned long\))?local:(\w+)\]$', rhs)
            if m:
                from loops import enclosing_fors, normal_for
                fs = enclosing_fors(f, n['id'])
                if fs:
                    lf = normal_for(f, fs[0])
                    if lf and lf['start_cv'] == '0' and lf['op'] == '<' and R.render(lf['bound']) == 'this._dimension.size' and lf['name'] == m.group(2):
                        ok = True
    if not ok:
        # the count handed back by a helper: 0 for no dimension, else the product of the dimensions
        import validators
        for n in f.calls():
            if n['k'] == 'CallExpr' and n['callee'].get('inrepo') and validators.count_helper(prog, n['callee']['usr']) is not None and R.render(f.call_args(n)[0]) == 'this._dimension':
                ok = True
    if ok:
        res.ok(rule, 'parameter.data.count', f.loc(), 'element count = product over all dimensions', function=f.sig, expr='parameter.data.count')
    else:
        res.undecided(rule, 'parameter.data.count', f.loc(), detail + ' [shape not read by the rule]', function=f.sig, expr='parameter.data.count')


def char_cell(ck, strsrc, cite):
    """text + (dim0 - len) spaces = exactly dim[0] bytes"""
    d = ck.w_string('data.char.text', strsrc, strsrc + '.size', cite=cite)
    want = 'this._dimension[0] + -1*%s.size' % strsrc
    wants = [want, '-1*%s.size + this._dimension[0]' % strsrc]
    nxt = ck.peek()
    # idiom 2: one write of a buffer of N spaces (std::string(N, ' ')), possibly under `if (N > 0)` / `if (len < dim0)`
    fill = nxt
    if nxt is not None and nxt[0] == 'alt' and not io_only(nxt[3]) and len(io_only(nxt[2])) == 1 and \
            re.match(r'^\(?%s\.size < this\._dimension\[0\]\)?$|^\(?this\._dimension\[0\] > %s\.size\)?$' % (re.escape(strsrc), re.escape(strsrc)), nxt[1]):
        fill = io_only(nxt[2])[0]
    if fill is not None and fill[0] == 'io' and fill[1].get('srck') == 'fill':
        ck.take((nxt[0],))
        dd = fill[1]
        if dd.get('fill_char') != 32:
            ck.bad('data.char.padding', dd['where'], 'cells are padded with character code %s, the format pads with spaces' % dd.get('fill_char'), facts={'cite': cite})
        elif pshow(dd.get('fill_n')) in wants and pshow(dd.get('width')) in wants:
            ck.ok('data.char.padding', dd['where'], '%s spaces written at once' % want)
        else:
            ck.bad('data.char.padding', dd['where'], 'a character cell must be exactly dimension[0] bytes: %s padding byte(s) are written from a buffer of %s, specified %s' %
                   (pshow(dd.get('width')), pshow(dd.get('fill_n')), want), facts={'cite': cite})
        return
    lp = ck.take(('loop',)) or ck.peek()
    if not ck.want_loop('data.char.padding', lp, wants, 'a character cell must be exactly dimension[0] bytes: text followed by (dimension[0] - length) padding bytes'):
        return
    c = Checker(ck.prog, ck.res, ck.rule, ck.fn, lp[3], ck.prefix)
    c.w_object('data.char.padding', 1, vals=['32'])
    ck.failed = ck.failed or c.failed


def leaf_writer(prog, res, rule, f, leaf_items, prefix):
    """the per-element write of writeImbricatedParameter: dispatch on _data_type"""
    spec = load_spec()
    L = rec_layout(spec, 'parameter')
    want = {'1': ('this._param_data_int[arg3]', ('s', 32)), '2': ('this._param_data_int[arg3]', ('s', 32)), '4': ('this._param_data_float[arg3]', ('f', 32)), '-1': None}
    seen = set()
    items = io_only(leaf_items)
    cur = items
    ok = True
    ORDER = ['1', '2', '4', '-1']

    def types_of(cond, remaining):
        """the element types (of those still possible) for which a boolean combination of comparisons of _data_type with constants holds"""
        py = re.sub(r'\(\(int\)this\._data_type (==|!=) (-?\d+)\)', lambda m: '(T %s %s)' % (m.group(1), m.group(2)), cond)
        py = py.replace('(bool)', '')
        py = py.replace('||', ' or ').replace('&&', ' and ').replace('|', ' or ').replace('&', ' and ')
        py = re.sub(r'!(?!=)', ' not ', py)
        if not re.match(r'^(?:[()\s]|T|==|!=|-?\d+|or|and|not)+$', py) or 'T' not in py:
            return None
        try:
            return [t for t in ORDER if t in remaining and eval(py, {'__builtins__': {}}, {'T': int(t)})]
        except Exception:
            return None
    while cur:
        it = cur[0]
        if it[0] != 'alt':
            # the closing else of the chain: it serves the types no earlier branch took
            left = [t for t in ORDER if t not in seen]
            if seen and left and len(left) < 4 and len({str(want.get(x)) for x in left}) == 1:
                it = ('alt', ' | '.join('((int)this._data_type == %s)' % t for t in left), cur, [])
            else:
                break
        ts_ = types_of(it[1], set(ORDER) - seen)
        if not ts_:
            break
        for t_extra in ts_[1:]:
            # a shared branch (BYTE and INT): judged once, under its first label, with the same expectations
            seen.add(t_extra)
        t = ts_[0]
        shared = ts_
        seen.add(t)
        c = Checker(prog, res, rule, f, it[2], '%s[type=%s]' % (prefix, '|'.join(ts_)))
        if t == '-1':
            char_cell(c, 'this._param_data_string[arg3]', L['data']['cite'])
        elif t in want:
            d = c.w_object('data', int(t), src=want[t][0], tc=want[t][1], cite=L['data']['cite']) if False else None
            # width is `_data_type` under the guard `_data_type == t`
            itw = c.take(('io',))
            dd = itw[1] if itw else None
            if dd is None or dd.get('srck') != 'object' or dd.get('src') != want[t][0]:
                c.bad('data', c.where(itw), 'element of type %s must be emitted from %s, found %s' % (t, want[t][0], describe(itw)))
            elif pshow(dd.get('width')) not in (t, 'this._data_type') or (len(shared) > 1 and pshow(dd.get('width')) != 'this._data_type') or \
                    any(want.get(x) != want[t] for x in shared):
                c.bad('data', dd['where'], 'element of type %s is %s byte(s) wide, %s are written' % (t, t, pshow(dd.get('width'))))
            elif (dd.get('src_tc'), dd.get('src_tw')) != want[t][1]:
                c.bad('data', dd['where'], 'element storage is %s/%s bits, expected %s/%d' % (dd.get('src_tc'), dd.get('src_tw'), want[t][1][0], want[t][1][1]))
            else:
                c.ok('data', dd['where'], '%s byte(s) from %s' % (t, want[t][0]))
        else:
            c.bad('data', c.where(it), 'unknown type constant %s in the element writer' % t)
        c.done()
        ok = ok and not c.failed
        cur = io_only(it[3])
    if seen != {'1', '2', '4', '-1'} and cur:
        res.undecided(rule, prefix + '.types', f.loc(), 'the element writer dispatches on the type in a form the rule does not read (%s); types read so far: %s' % (_describe(cur[0]), sorted(seen)),
                      function=f.sig, expr=prefix + '.types')
    elif seen != {'1', '2', '4', '-1'}:
        res.viol(rule, prefix + '.types', f.loc(), 'element writer handles types %s, the format has -1, 1, 2, 4' % sorted(seen), function=f.sig, expr=prefix + '.types')
    else:
        res.ok(rule, prefix + '.types', f.loc(), 'all four element types handled', function=f.sig, expr=prefix + '.types')


def payload_writer(prog, res, rule, f, alt, ck):
    spec = load_spec()
    L = rec_layout(spec, 'parameter')
    # a buffer of elements written with a byte count that is not (elements x element size): the bytes do not line up with the values
    def mism(items):
        for it in items:
            if it[0] == 'io' and (it[1].get('gather') or {}).get('verdict') == 'mismatch' and (it[1]['gather'].get('copy_of') or '').startswith('this._param_data'):
                yield it[1]
            elif it[0] == 'loop':
                yield from mism(it[3])
            elif it[0] == 'alt':
                yield from mism(it[2])
                yield from mism(it[3])
            elif it[0] == 'call':
                yield from mism(it[3])
    for d_ in mism(alt[2]):
        ck.bad('data.element-width', d_['where'], 'parameter values are sent from a copy of %s: %s' % (d_['gather'].get('copy_of'), d_['gather']['why']), facts={'cite': L['data']['cite']})
    g = prog.fn('ezc3d::ParametersNS::GroupNS::Parameter::writeImbricatedParameter', nparams=4)
    okr, why, leaf = recursion_scheme(prog, g, 2, 1, 'w')
    if not okr:
        (res.undecided if why.startswith('shape: ') else res.viol)(rule, 'parameter.data.recursion', g.loc(), why, function=g.sig, expr='parameter.data.recursion')
        return
    res.ok(rule, 'parameter.data.recursion', g.loc(), 'for (i < dim[cur]) { cur == last ? element : recurse(cur+1) }: emits prod(dim[cur0:]) elements in order', function=g.sig, expr='parameter.data.recursion')
    # the counter: incremented exactly once per leaf, threaded through the recursion
    Rg = Renderer(g)
    incs = [n for n in g.all_nodes({'UnaryOperator'}) if n['op'] == '++' and Rg.render(n['ch'][0]) == 'arg3']
    rec_assign = [n for n in g.all_nodes({'BinaryOperator'}) if n['op'] == '=' and Rg.render(n['ch'][0]) == 'arg3']
    rets = [Rg.render(n['ch'][0]) for n in g.all_nodes({'ReturnStmt'}) if n['ch']]
    if len(incs) == 1 and len(rec_assign) == 1 and rets == ['arg3']:
        res.ok(rule, 'parameter.data.counter', g.loc(), 'element index advances by one per element and is threaded through the recursion', function=g.sig, expr='parameter.data.counter')
    elif not incs and not [n for n in g.all_nodes({'CompoundAssignOperator'}) if Rg.render(n['ch'][0]) == 'arg3']:
        res.viol(rule, 'parameter.data.counter', g.loc(), 'the element counter is never advanced: every element would be written from the same slot', function=g.sig, expr='parameter.data.counter')
    else:
        res.undecided(rule, 'parameter.data.counter', g.loc(), 'element counter is not (++ once per element, cmp = recurse(...), return cmp) [shape not read by the rule]', function=g.sig, expr='parameter.data.counter')
    leaf_writer(prog, res, rule, g, leaf, 'parameter.element')
    # dispatch in Parameter::write
    inner = io_only(alt[2])
    oa = orient(inner[0], '((int)this._data_type == -1)') if len(inner) == 1 and inner[0][0] == 'alt' else None
    if oa is None:
        ck.shape('data.dispatch', ck.where(inner[0] if inner else None), 'expected the CHAR / numeric dispatch, found %s' % _describe(inner[0] if inner else None))
        return
    a = (inner[0][0], inner[0][1], oa[0], oa[1]) + tuple(inner[0][4:])
    ch = io_only(a[2])
    oc = orient(ch[0], '(this._dimension.size == 1)') if len(ch) == 1 and ch[0][0] == 'alt' else None
    if oc is not None:
        ch = [(ch[0][0], ch[0][1], oc[0], oc[1]) + tuple(ch[0][4:])]
        c1 = Checker(prog, res, rule, f, ch[0][2], 'parameter.char1d')
        char_cell(c1, 'this._param_data_string[0]', L['data']['cite'])
        c1.done()
        els = io_only(ch[0][3])
        if len(els) == 1 and els[0][0] == 'call' and els[0][1].usr == g.usr and els[0][2].get('arg1') == 'this._dimension' and els[0][2].get('arg2') == '1' and els[0][2].get('arg3', '0') in ('0', 'default'):
            ck.ok('data.char-matrix', ck.where(els[0]), 'prod(dimension[1:]) cells through the element recursion starting at dimension 1')
        elif len(els) == 1 and els[0][0] == 'call' and els[0][1].usr == g.usr:
            ck.bad('data.char-matrix', ck.where(els[0]), 'CHAR matrix must be written by the element recursion over dimensions 1.. with the counter at 0; the recursion is started with %s' %
                   {k: v for k, v in els[0][2].items() if k in ('arg1', 'arg2', 'arg3')})
        else:
            ck.shape('data.char-matrix', ck.where(els[0] if els else ch[0]), 'CHAR matrix is not written by one call of the element recursion')
    else:
        ck.shape('data.char', ck.where(ch[0] if ch else a), 'expected the 1-D / matrix alternative for CHAR data, found %s' % _describe(ch[0] if ch else None))
    num = io_only(a[3])
    DS = ('!((bool)this._name.compare("DATA_START"))', '(this._name == "DATA_START")', 'std::operator==(this._name,"DATA_START")', '(this._name.compare("DATA_START") == 0)')
    od = orient(num[0], DS) if len(num) == 1 and num[0][0] == 'alt' else None
    if od is None and len(num) == 1 and num[0][0] == 'alt' and 'std::operator!=(this._name,"DATA_START")' == num[0][1]:
        od = (num[0][3], num[0][2])
    if od is not None:
        num = [(num[0][0], num[0][1], od[0], od[1]) + tuple(num[0][4:])]
        c2 = Checker(prog, res, rule, f, num[0][2], 'parameter.data_start')
        sl = c2.take(('slot',))
        if sl is not None and sl[1] == 'tell' and sl[2] != 'arg2':
            c2.bad('slot', c2.where(sl), 'the position of the DATA_START value must be remembered in the out parameter (it is stored to %s)' % sl[2])
        elif sl is None or sl[1] != 'tell':
            c2.shape('slot', c2.where(sl or c2.peek()), 'the position of the DATA_START value must be remembered in the out parameter')
        c2.w_object('slot.placeholder', 2, vals=['0'])
        c2.done()
        els = io_only(num[0][3])
        if len(els) == 1 and els[0][0] == 'call' and els[0][1].usr == g.usr and els[0][2].get('arg1') == 'this._dimension' and els[0][2].get('arg2', '0') in ('0', 'default') and els[0][2].get('arg3', '0') in ('0', 'default'):
            ck.ok('data.numeric', ck.where(els[0]), 'prod(dimension) elements through the element recursion starting at dimension 0')
        elif len(els) == 1 and els[0][0] == 'call' and els[0][1].usr == g.usr:
            ck.bad('data.numeric', ck.where(els[0]), 'numeric payload must be written by the element recursion over all dimensions with the counter at 0; the recursion is started with %s' %
                   {k: v for k, v in els[0][2].items() if k in ('arg1', 'arg2', 'arg3')})
        else:
            ck.shape('data.numeric', ck.where(els[0] if els else num[0]), 'numeric payload is not written by one call of the element recursion')
    else:
        ck.shape('data.numeric', ck.where(num[0] if num else a), 'expected the DATA_START special case / generic numeric payload alternative, found %s' % _describe(num[0] if num else None))


# ---------------------------------------------------------------------------------------------
# readers

class RChecker(Checker):
    def r_field(self, slot, fn_name, width, dest=None, post=None, cite=None, seek=None):
        it = self.take(('io',))
        if it is None or it[1].get('k') not in codec.READERS:
            self.bad(slot, self.where(it), 'expected %s of %s byte(s) here, found %s' % (fn_name, width, describe(it)), facts={'cite': cite})
            return None
        d = it[1]
        if d['k'] != fn_name:
            sg = {'readInt': 'signed', 'readUint': 'unsigned', 'readFloat': 'REAL', 'readString': 'character'}
            self.bad(slot, d['where'], 'the format gives this field as %s; it is read with %s (%s)' % (sg[fn_name], d['k'], sg.get(d['k'])), facts={'cite': cite})
            return d
        if pshow(d.get('width')) != str(width):
            self.bad(slot, d['where'], 'field is %s byte(s) wide, %s are read' % (width, pshow(d.get('width'))), facts={'cite': cite})
            return d
        if dest is not None and d.get('dest') != dest:
            got_d = d.get('dest') or ''
            if dest.endswith('[+]') and got_d.startswith(dest[:-3] + '[') and 'local:' in got_d:
                # the same container, filled by position instead of by appending: which positions is not read by the rule
                self.shape(slot, d['where'], 'value is stored to %s (a computed position of the expected container); expected an append %s' % (got_d, dest))
            elif got_d.startswith('this.') or re.match(r'^arg\d', got_d) or got_d.startswith('copy('):
                self.bad(slot, d['where'], 'value is stored to %s, expected %s' % (d.get('dest'), dest), facts={'cite': cite})
            else:
                # a local / a returned value / an argument of a call: the value travels through an intermediate the rule does not follow
                self.shape(slot, d['where'], 'value goes to %s on its way; expected it to be stored to %s' % (d.get('dest'), dest))
            return d
        if post is not None:
            got = [x for x in (d.get('post') or []) if x[0] != 'cast' or (x[2] or 64) < 32]
            if got != post:
                self.bad(slot, d['where'], 'value is transformed by %s on load, expected %s' % (got, post), facts={'cite': cite})
                return d
        if seek is not None:
            if pshow(d.get('skip')) != seek[0] or d.get('whence') != seek[1]:
                self.bad(slot, d['where'], 'field is read at offset %s (whence %s), specified %s from the beginning of the file' % (pshow(d.get('skip')), d.get('whence'), seek[0]), facts={'cite': cite})
                return d
        elif 'skip' in d:
            self.bad(slot, d['where'], 'unexpected seek before this field', facts={'cite': cite})
            return d
        self.ok(slot, d['where'], '%s byte(s), %s -> %s' % (width, fn_name, d.get('dest')))
        return d


def lock_from_sign(prog, res, rule, f, prefix):
    """_isLocked <- (nbCharInName < 0) as an if/else over the sign of the length parameter"""
    R = Renderer(f)
    for n in f.all_nodes({'IfStmt'}):
        c_ = R.render(n['cond'])
        if c_ in ('(arg1 < 0)', '(arg1 >= 0)', '(0 > arg1)', '(0 <= arg1)') and 'else' in n:
            neg_first = c_ in ('(arg1 < 0)', '(0 > arg1)')
            def assigned(i):
                vals = []
                for x in f.descendants(i):
                    m = f.nodes[x]
                    if m['k'] == 'BinaryOperator' and m['op'] == '=' and R.render(m['ch'][0]) == 'this._isLocked':
                        vals.append(R.render(m['ch'][1]))
                return vals
            a_neg, a_pos = (assigned(n['then']), assigned(n['else'])) if neg_first else (assigned(n['else']), assigned(n['then']))
            if a_neg in (['true'], ['1']) and a_pos in (['false'], ['0']):
                res.ok(rule, prefix + '.lock', f.loc(n['id']), 'locked iff the name length byte is negative', function=f.sig, expr=prefix + '.lock')
                return
    # direct form  _isLocked = nbCharInName < 0
    for n in f.all_nodes({'BinaryOperator'}):
        if n['op'] == '=' and R.render(n['ch'][0]) == 'this._isLocked' and R.render(n['ch'][1]) in ('(arg1 < 0)', '(bool)(arg1 < 0)'):
            res.ok(rule, prefix + '.lock', f.loc(n['id']), 'locked iff the name length byte is negative', function=f.sig, expr=prefix + '.lock')
            return
    res.viol(rule, prefix + '.lock', f.loc(), 'lock flag is not derived as (name length < 0)', function=f.sig, expr=prefix + '.lock')


def record_suffix_reader(ck, L):
    d = ck.r_field('desc_len', 'readUint', 1, cite=L['desc_len']['cite'])
    alt = ck.take(('alt',))
    var = d.get('dest') if d else None
    o = orient(alt, ('(bool)%s' % var, '(%s != 0)' % var, '(%s > 0)' % var)) if alt is not None and var is not None else None
    if o is None:
        ck.bad('desc', ck.where(alt), 'expected the description to be read iff its length is non-zero, found %s' % describe(alt))
        return
    alt = (alt[0], alt[1], o[0], o[1]) + tuple(alt[4:])
    c = RChecker(ck.prog, ck.res, ck.rule, ck.fn, alt[2], ck.prefix)
    c.r_field('desc', 'readString', var, dest='this._description', cite=L['desc']['cite'])
    c.done('desc.tail')
    ck.failed = ck.failed or c.failed
    if io_only(alt[3]):
        ck.bad('desc', ck.where(alt), 'I/O in the empty-description branch')


def record_prefix_reader(ck, L):
    ck.r_field('name', 'readString', 'abs(arg1)', dest='this._name', cite=L['name']['cite'])
    d = ck.r_field('next', 'readUint', 2, cite=L['next']['cite'])
    # the bookkeeping branch (position of the next record) performs no reads
    alt = ck.take(('alt',))
    if alt is not None and any(x[0] == 'io' for x in list(_walk({'then': alt[2], 'else': alt[3]}))):
        ck.bad('next', ck.where(alt), 'reads inside the next-record bookkeeping')


def group_reader_rule(prog, res, rule='group-read'):
    spec = load_spec()
    L = rec_layout(spec, 'group')
    f = prog.fn('ezc3d::ParametersNS::GroupNS::Group::read', nparams=2)
    seq = codec.Extractor(prog, 'r').seq_of(f)
    ck = RChecker(prog, res, rule, f, seq, 'group')
    lock_from_sign(prog, res, rule, f, 'group')
    record_prefix_reader(ck, L)
    record_suffix_reader(ck, L)
    ck.done()


def type_byte_rule(prog, res, rule, f):
    """type byte -> _data_type is the identity on {-1,1,2,4}; anything else is refused with
    std::ios_base::failure (finite enumeration of the byte's meaning)"""
    from facts import eval_bool
    import a7
    R = Renderer(f)
    g = f.events()
    # find the local that receives the type byte
    var = None
    for it in io_only(codec.Extractor(prog, 'r').seq_of(f)):
        if it[0] == 'io' and it[1].get('k') == 'readInt' and pshow(it[1].get('width')) == '1' and (it[1].get('dest') or '').startswith('local:'):
            var = it[1]['dest']
            start = g.vertex_of.get(it[1]['node'])
    if var is None:
        # the type byte may be handed straight to a helper whose result is stored:  _data_type = H(readInt(1))
        import a7
        for it in io_only(codec.Extractor(prog, 'r').seq_of(f)):
            if it[0] == 'io' and it[1].get('k') == 'readInt' and pshow(it[1].get('width')) == '1' and it[1].get('dest') == 'this._data_type':
                rd = f.nodes[it[1]['node']]
                par = None
                for a_ in f.ancestors(rd['id']):
                    an = f.nodes[a_]
                    if an['k'] == 'CallExpr' and an.get('callee', {}).get('inrepo'):
                        par = an
                        break
                    if an['k'] not in ('ImplicitCastExpr', 'CXXStaticCastExpr', 'ParenExpr', 'ExprWithCleanups', 'MaterializeTemporaryExpr', 'CStyleCastExpr'):
                        break
                hf = prog.funcs.get(par['callee']['usr']) if par is not None else None
                if hf is None or hf.body is None or len(hf.params) != 1:
                    continue
                bad = []
                und = False
                for tv in (-1, 1, 2, 4, 0, 3, -2, 8, 127, -128):
                    st = {}
                    _, end, _u = a7.walk(hf, {'arg0': tv}, follow_loops=True, state=st, max_steps=500)
                    if end.startswith('undecided') or end == 'loop':
                        und = True
                        break
                    got = 'type:%s' % st.get('ret') if end == 'NEXIT' else end.split('@')[0]
                    want = 'type:%d' % tv if tv in (-1, 1, 2, 4) else 'throw:std::ios_base::failure'
                    if got != want:
                        bad.append('type byte %d -> %s (specified %s)' % (tv, got, want))
                if und:
                    break
                if bad:
                    res.viol(rule, 'parameter.type.map', hf.loc(), '; '.join(bad[:3]), function=f.sig, expr='parameter.type.map')
                else:
                    res.ok(rule, 'parameter.type.map', hf.loc(), 'identity on {-1,1,2,4}, std::ios_base::failure otherwise (10 byte values walked through %s)' % hf.name, function=f.sig, expr='parameter.type.map')
                return
        res.undecided(rule, 'parameter.type.map', f.loc(), 'the element type byte is not read into a local that is then mapped (nor mapped by a helper the rule can walk) [shape not read by the rule]',
                      function=f.sig, expr='parameter.type.map')
        return
    bad = []
    unread_map = []
    for tv in (-1, 1, 2, 4, 0, 3, -2, 8, 127, -128):
        def atom(i, tv=tv):
            n = f.nodes[i]
            if n['k'] == 'BinaryOperator' and n['op'] in ('==', '!='):
                l, r = R.render(n['ch'][0]), R.render(n['ch'][1])
                for a, b in ((l, r), (r, l)):
                    if a == var and re.match(r'^-?\d+$', b):
                        return (tv == int(b)) if n['op'] == '==' else (tv != int(b))
            # anything else that only depends on the type byte: evaluated on a one-variable model
            try:
                val_ = a7.Evaluator(f, {var: tv, '#fields': True}).ev(i)
            except Exception:
                val_ = None
            if isinstance(val_, bool):
                return val_
            return None
        # walk from the read until _data_type is assigned or a throw is met
        seen = set()
        st = [start]
        outcome = set()
        undecided_branch = False
        while st:
            v = st.pop()
            if v in seen or isinstance(v, str):
                continue
            seen.add(v)
            nid = g.node_of(v)
            if nid is not None:
                n = f.nodes[nid]
                if n['k'] == 'CXXThrowExpr':
                    outcome.add('throw:' + str(n.get('throw_t')))
                    continue
                if n['k'] == 'BinaryOperator' and n['op'] == '=' and R.render(n['ch'][0]) == 'this._data_type':
                    rv_ = R.render(n['ch'][1])
                    if not re.match(r'^-?\d+$', rv_):
                        try:
                            ev_ = a7.Evaluator(f, {var: tv, '#fields': True}).ev(n['ch'][1])
                        except Exception:
                            ev_ = None
                        if isinstance(ev_, int) and not isinstance(ev_, bool):
                            rv_ = str(ev_)
                    outcome.add('type:' + rv_)
                    continue
                # stop at the next read (dimension count)
                if n['k'] == 'CXXMemberCallExpr' and n['callee']['name'] in codec.READERS and v != start:
                    outcome.add('fallthrough')
                    continue
            if v in g.branch and g.branch[v]['cond'] >= 0 and len(g.branch[v]['targets']) == 2 and not g.branch[v]['tempdtor']:
                val = eval_bool(f, g.branch[v]['cond'], atom)
                if val is True:
                    st.extend(g.branch[v]['targets'][0])
                elif val is False:
                    st.extend(g.branch[v]['targets'][1])
                else:
                    undecided_branch = True
                    st.extend(g.branch[v]['targets'][0] + g.branch[v]['targets'][1])
            else:
                st.extend(s for s in g.succ.get(v, []) if not (isinstance(s, tuple) and g.blocks[s[0]].get('labelk') == 'CXXCatchStmt' and s[1] == 0))
        want = {'type:%d' % tv} if tv in (-1, 1, 2, 4) else {'throw:std::ios_base::failure'}
        if outcome != want:
            if undecided_branch or any(o_.startswith('type:') and not re.match(r'^type:-?\d+$', o_) for o_ in outcome):
                unread_map.append('type byte %d -> %s' % (tv, sorted(outcome)))
            else:
                bad.append('type byte %d -> %s (specified %s)' % (tv, sorted(outcome), sorted(want)))
    if bad:
        res.viol(rule, 'parameter.type.map', f.loc(), '; '.join(bad[:3]), function=f.sig, expr='parameter.type.map', sure=True)
    elif unread_map:
        res.undecided(rule, 'parameter.type.map', f.loc(), 'the mapping of the type byte goes through tests / values the rule does not evaluate (%s) [shape not read by the rule]' % unread_map[0],
                      function=f.sig, expr='parameter.type.map')
    else:
        res.ok(rule, 'parameter.type.map', f.loc(), 'identity on {-1,1,2,4}, std::ios_base::failure otherwise (10 byte values enumerated)', function=f.sig, expr='parameter.type.map')


def parameter_reader_rule(prog, res, rule='parameter-read'):
    spec = load_spec()
    L = rec_layout(spec, 'parameter')
    f = prog.fn('ezc3d::ParametersNS::GroupNS::Parameter::read', nparams=2)
    seq = codec.Extractor(prog, 'r').seq_of(f)
    ck = RChecker(prog, res, rule, f, seq, 'parameter')
    lock_from_sign(prog, res, rule, f, 'parameter')
    record_prefix_reader(ck, L)
    ck.r_field('type', 'readInt', 1, cite=L['type']['cite'])
    type_byte_rule(prog, res, rule, f)
    # the element type decoded from the type byte is what the object keeps: nothing the reader calls afterwards stores another one
    E_ = FX.get(prog)
    tw = [e for e in E_.events_of(f, 'this') if tuple(e[2]) == ('_data_type',) and e[3] == 'assign']
    via_calls = [e for e in tw if f.nodes[e[0]]['k'] in ('CXXMemberCallExpr', 'CallExpr') and f.nodes[e[0]].get('callee', {}).get('inrepo')]
    direct = [e for e in tw if e not in via_calls]
    for e in via_calls:
        cn = f.nodes[e[0]]
        cf = prog.funcs.get(cn['callee'].get('usr'))
        if cf is None or cf.body is None or not direct:
            continue
        Rc = Renderer(cf)
        consts = []
        for n_ in cf.nodes:
            if n_['k'] == 'BinaryOperator' and n_['op'] == '=' and Rc.render(n_['ch'][0]) == 'this._data_type':
                v_ = cf.nodes[cf.strip(n_['ch'][1], 'all')].get('cv')
                if v_ is not None:
                    consts.append(str(v_))
        if consts:
            res.viol(rule, 'parameter.type.kept', f.loc(e[0]), 'after the element type was decoded from the type byte, %s stores the constant type %s: a parameter of another type (BYTE) is re-typed on load and '
                     'written back with another element width' % (cf.qname.split('::')[-1] + '(...)', '/'.join(sorted(set(consts)))), function=f.sig, expr='parameter.type.kept')
    d = ck.r_field('ndims', 'readUint', 1, cite=L['ndims']['cite'])
    nd = d.get('dest') if d else None
    alt = ck.take(('alt',))
    R = Renderer(f)
    o = orient(alt, '(%s == 0)' % nd) if alt is not None and nd is not None else None
    if o is None:
        ck.bad('dims', ck.where(alt), 'expected the scalar / dimension-list alternative on the dimension count, found %s' % describe(alt))
    else:
        scalar_is_then = (o[0] is alt[2])
        alt = (alt[0], '(%s == 0)' % nd, o[0], o[1]) + tuple(alt[4:])
        # scalar branch: no reads, dimension := [1]
        if io_only(alt[2]):
            ck.bad('dims.scalar', ck.where(alt), 'reads in the scalar branch')
        else:
            pushes = []
            for n in f.all_nodes({'IfStmt'}):
                if R.render(n['cond']) in (alt[1], negate(alt[1])):
                    br = n['then'] if R.render(n['cond']) == alt[1] else n.get('else')
                    for x in (f.descendants(br) if br is not None else []):
                        m = f.nodes[x]
                        if m['k'] == 'CXXMemberCallExpr' and m['callee']['name'] == 'push_back' and R.render(m['obj']) == 'this._dimension':
                            pushes.append(R.render(m['args'][0]))
            if not pushes and len(alt) > 5 and alt[5] is not f:
                # the alternative lives in a member / helper the reader was split into: look at that statement itself
                fn_ = alt[5]
                Rn = Renderer(fn_)
                n_ = fn_.nodes[alt[4]] if alt[4] is not None and alt[4] < len(fn_.nodes) else None
                if n_ is not None and n_['k'] == 'IfStmt':
                    br = n_['then'] if scalar_is_then else n_.get('else')
                    for x in (fn_.descendants(br) if br is not None else []):
                        m = fn_.nodes[x]
                        if m['k'] == 'CXXMemberCallExpr' and m['callee']['name'] == 'push_back' and Rn.render(m['obj']) == 'this._dimension':
                            pushes.append(Rn.render(m['args'][0]))
            if pushes == ['1'] or pushes == ['(unsigned long)1']:
                ck.ok('dims.scalar', ck.where(alt), '0 dimensions -> dimension [1] (inverse of the writer\'s scalar case)')
            elif not pushes:
                ck.shape('dims.scalar', ck.where(alt), 'cannot find how the scalar branch sets the dimensions (expected _dimension.push_back(1))')
            else:
                ck.bad('dims.scalar', ck.where(alt), 'a scalar (0 dimensions) must become dimension [1]; found push_back of %s' % pushes)
        els = io_only(alt[3])
        if len(els) == 1 and els[0][0] == 'loop' and pshow(els[0][1]) == nd:
            c = RChecker(prog, res, rule, f, els[0][3], 'parameter')
            c.r_field('dims', 'readUint', 1, dest='this._dimension[+]', cite=L['dims']['cite'])
            c.done('dims.tail')
            ck.failed = ck.failed or c.failed
        else:
            (ck.bad if (not els or recognisable(els[0])) else ck.shape)('dims', ck.where(els[0] if els else alt), 'expected one unsigned byte per declared dimension' + ('' if not els else ', found %s' % _describe(els[0])))
    payload_reader(prog, res, rule, f, ck)
    record_suffix_reader(ck, L)
    ck.done()


def payload_reader(prog, res, rule, f, ck):
    """dispatch on _data_type to the readParam family; each recursion follows the scheme and reads
    elements of the right width/signedness into the right vector"""
    spec = load_spec()
    L = rec_layout(spec, 'parameter')
    fam = {}
    for g in prog.fns('ezc3d::c3d::readParam'):
        fam[len(g.params)] = g
    rm = prog.fn('ezc3d::c3d::_readMatrix', nparams=3)
    # numeric: readParam(len, dim, out, cur) / readParam(dim, out, cur)
    g4, g3, g2 = fam.get(4), fam.get(3), fam.get(2)
    if not (g4 and g3 and g2):
        raise AnalysisBroken('readParam overloads vanished')
    okr, why, leaf = recursion_scheme(prog, g4, 3, 1, 'r')
    if okr:
        c = RChecker(prog, res, rule, g4, leaf, 'parameter.element[int]')
        c.r_field('data', 'readInt', 'arg0', dest='arg2[+]', cite=L['data']['cite'])
        c.done()
    else:
        (res.undecided if why.startswith('shape: ') else res.viol)(rule, 'parameter.element[int].recursion', g4.loc(), why, function=g4.sig, expr='parameter.element[int].recursion')
    okr, why, leaf = recursion_scheme(prog, g3, 2, 0, 'r')
    if okr:
        c = RChecker(prog, res, rule, g3, leaf, 'parameter.element[float]')
        c.r_field('data', 'readFloat', 4, dest='arg1[+]', cite=L['data']['cite'])
        c.done()
    else:
        (res.undecided if why.startswith('shape: ') else res.viol)(rule, 'parameter.element[float].recursion', g3.loc(), why, function=g3.sig, expr='parameter.element[float].recursion')
    okr, why, leaf = recursion_scheme(prog, rm, 2, 0, 'r')
    if okr:
        c = RChecker(prog, res, rule, rm, leaf, 'parameter.element[char]')
        c.r_field('data', 'readString', 1, dest='arg1[+]', cite=L['data']['cite'])
        c.done()
    else:
        (res.undecided if why.startswith('shape: ') else res.viol)(rule, 'parameter.element[char].recursion', rm.loc(), why, function=rm.sig, expr='parameter.element[char].recursion')
    # dispatch in Parameter::read
    want = {'-1': (g2.usr, {'arg0': 'this._dimension', 'arg1': 'this._param_data_string'}),
            '1': (g4.usr, {'arg0': '(unsigned int)this._data_type', 'arg1': 'this._dimension', 'arg2': 'this._param_data_int'}),
            '2': (g4.usr, {'arg0': '(unsigned int)this._data_type', 'arg1': 'this._dimension', 'arg2': 'this._param_data_int'}),
            '4': (g3.usr, {'arg0': 'this._dimension', 'arg1': 'this._param_data_float'})}
    seen = set()
    it = ck.take(('alt',))
    unread = None
    while it is not None:
        ts = re.findall(r'\(\(int\)this\._data_type == (-?\d+)\)', it[1])
        if not ts or not re.match(r'^[()| ]*(?:\(\(int\)this\._data_type == -?\d+\)[()| ]*)+$', it[1]):
            unread = it
            break
        th = io_only(it[2])
        for t in ts:
            seen.add(t)
            if len(th) == 1 and th[0][0] == 'call' and t in want and th[0][1].usr == want[t][0] and all(th[0][2].get(k) == v for k, v in want[t][1].items()):
                ck.ok('data[type=%s]' % t, ck.where(th[0]), 'elements read into %s by %s' % (list(want[t][1].values())[-1], th[0][1].name))
            elif not th and any(x[0] == 'call' for x in it[2]):
                # the branch calls something in which the rule sees no read (e.g. the read is handed down as a callable): not evidence that nothing is read
                ck.shape('data[type=%s]' % t, ck.where(it), 'payload of type %s is read through %s, in which the rule finds no read of its own' %
                         (t, ', '.join(x[1].name for x in it[2] if x[0] == 'call')))
            else:
                ck.bad('data[type=%s]' % t, ck.where(th[0] if th else it), 'payload of type %s must be read by the matching reader into its own vector; found %s with %s' %
                       (t, describe(th[0]) if th else 'nothing', th[0][2] if th and th[0][0] == 'call' else ''))
        nxt = io_only(it[3])
        it = nxt[0] if len(nxt) == 1 and nxt[0][0] == 'alt' else None
        if it is None and nxt:
            unread = nxt[0]
    if unread is not None:
        ck.shape('data.dispatch', ck.where(unread), 'payload dispatch continues with %s: not a test of the element type the rule reads (types read so far: %s)' % (_describe(unread), sorted(seen)))
    elif seen != {'-1', '1', '2', '4'}:
        ck.bad('data.types', ck.fn.loc(), 'payload dispatch handles types %s, the format has -1, 1, 2, 4' % sorted(seen))
    # string re-assembly: readParam(dim, strings) reads prod(dim) single characters, then joins
    # dim[0] of them per string (1-D: one string; matrix: _dispatchMatrix) and trims trailing spaces
    string_assembly_rule(prog, res, rule, g2)


def _helper_family(prog, roots):
    """[(Func, {rendering in Func: rendering in the root that called it})] for the given functions and
    the file-local helpers they call (one level), with the helpers' parameters expressed in the caller's terms"""
    out = [(f, {}) for f in roots]
    for f in roots:
        R = Renderer(f)
        for c in f.calls():
            cf = prog.funcs.get(c['callee'].get('usr')) if c['callee'].get('inrepo') else None
            if cf is None or cf.body is None or not (cf.rec.get('internal') or '(anonymous namespace)' in cf.qname):
                continue
            sub = {'arg%d' % k: R.render(a) for k, a in enumerate(f.call_args(c))}
            out.append((cf, sub))
    return out


def _advances_by_helper(prog, dm, Rd, asg):
    """asg is `idx = helper(.., idx, dimension[0], ..)` where the file-local helper returns (its index parameter + its count parameter)"""
    c = dm.nodes[dm.strip(asg['ch'][1], 'all')]
    if c['k'] != 'CallExpr' or not c.get('callee', {}).get('inrepo'):
        return False
    hf = prog.funcs.get(c['callee']['usr'])
    if hf is None or hf.body is None or not (hf.rec.get('internal') or '(anonymous namespace)' in hf.qname):
        return False
    Rh = Renderer(hf)
    rets = [Rh.render(r_['ch'][0]) for r_ in hf.all_nodes({'ReturnStmt'}) if r_['ch']]
    if len(rets) != 1:
        return False
    m = re.match(r'^\(arg(\d+) \+ arg(\d+)\)$', rets[0])
    if not m:
        return False
    args = dm.call_args(c)
    a, b = int(m.group(1)), int(m.group(2))
    if max(a, b) >= len(args):
        return False
    ra, rb = Rd.render(args[a]), Rd.render(args[b])
    return {ra, rb} == {'arg3', 'arg0[0]'}


def string_assembly_rule(prog, res, rule, g2):
    """readParam(dim, strings) reads prod(dim) one-character cells through _readMatrix, then joins
    dim[0] of them per string (1-D: one string; matrix: _dispatchMatrix) and trims trailing spaces.
    The joining may live in file-local helpers.  Three-valued: a demonstrated defect (a string
    stored untrimmed, a join over another width, an index that never advances) is a violation; a
    form the rule does not read is UNDECIDED."""
    R = Renderer(g2)
    dm = prog.fn('ezc3d::c3d::_dispatchMatrix', nparams=5)
    seq = io_only(codec.Extractor(prog, 'r').seq_of(g2))
    first = seq[0] if seq else None
    if not (first and first[0] == 'call' and first[1].name == '_readMatrix'):
        res.undecided(rule, 'parameter.char.assembly', g2.loc(), 'character payload is not read by one leading call of _readMatrix: %s [shape not read by the rule]' % _describe(first),
                      function=g2.sig, expr='parameter.char.assembly')
        return
    if not (first[2].get('arg0') == 'arg0' and first[2].get('arg2', '0') in ('0', 'default')):
        res.viol(rule, 'parameter.char.assembly', g2.loc(), 'character payload is read by _readMatrix(%s, .., %s), not over all dimensions from 0' % (first[2].get('arg0'), first[2].get('arg2')),
                 function=g2.sig, expr='parameter.char.assembly')
        return
    from codec import substitute
    fam = _helper_family(prog, [g2, dm])
    outs = {g2.usr: 'arg1', dm.usr: 'arg2'}
    bad = None
    unknown = None
    pushes = 0
    joins_ok = 0

    def trimmed_local(f, vid, at_vertex):
        g = f.events()
        trims = [c for c in f.calls() if c['callee']['qname'] == 'ezc3d::removeTrailingSpaces' and f.nodes[f.strip(c['args'][0], 'all')].get('decl', {}).get('id') == vid]
        return any(g.vertex_of.get(t['id']) is not None and g.dominates(g.vertex_of[t['id']], at_vertex) for t in trims)

    def join_width(f, sub, vid):
        """the local string vid is built by `+=` inside counted loops: -> set of trip counts (caller's terms), or None"""
        from loops import loops_around
        Rf = Renderer(f)
        ws = set()
        found = False
        for n in f.all_nodes({'CXXOperatorCallExpr'}):
            if n.get('op') != '+=':
                continue
            t = f.nodes[f.strip(n['args'][0], 'all')]
            if t['k'] != 'DeclRefExpr' or t['decl'].get('id') != vid:
                continue
            found = True
            la = [l for l in loops_around(f, n['id'], Rf)]
            if not la or la[0]['name'] is None:
                return None
            ws.add(substitute(la[0]['bound'], sub) if sub else la[0]['bound'])
        if not found:
            # built in one go:  std::string v(std::accumulate(X.begin() + a, X.begin() + a + N, std::string()))  ->  N cells
            from paths import local_init
            ini = local_init(f, vid)
            e_ = f.nodes[f.strip(ini, 'all')] if ini is not None else None
            if e_ is not None and e_['k'] == 'CallExpr' and e_.get('callee', {}).get('qname') == 'std::accumulate' and len(f.call_args(e_)) >= 3:
                b_, en_ = Rf.render(f.call_args(e_)[0]), Rf.render(f.call_args(e_)[1])
                b_ = re.sub(r'^\w[\w:<>, *]*\{(.*)\}$', r'\1', b_)
                en_ = re.sub(r'^\w[\w:<>, *]*\{(.*)\}$', r'\1', en_)
                m_ = re.match(r'^%s\.operator\+\((.*)\)$' % re.escape(b_), en_)
                if m_:
                    n_ = re.sub(r'^\((?:long|unsigned long|std::ptrdiff_t|int)\)', '', m_.group(1))
                    return {substitute(n_, sub) if sub else n_}
        return ws if found else None
    for f, sub in fam:
        Rf = Renderer(f)
        if f.usr != dm.usr:
            # the joins are judged in terms of the parameter's own dimensions: the dispatcher must receive them as they are
            for c_ in f.calls():
                if c_['callee'].get('usr') == dm.usr and f.call_args(c_):
                    a0 = Rf.render(f.call_args(c_)[0])
                    a0 = substitute(a0, sub) if sub else a0
                    if a0 != 'arg0':
                        unknown = 'the string dispatcher is called at %s with dimensions (%s) that are not the parameter\'s own' % (f.loc(c_['id']), a0)
        if f.usr in outs:
            outp = outs[f.usr]
        else:
            # a helper: its output is the parameter that receives the caller's output
            outp = None
            for k_, v_ in sub.items():
                if v_ in ('arg1', 'arg2') and k_.startswith('arg'):
                    outp = k_
        g = f.events()
        for n in f.calls():
            if not (n['callee']['name'] in ('push_back', 'emplace_back') and f.call_obj(n) is not None and outp is not None and Rf.render(f.call_obj(n)) == outp):
                continue
            pushes += 1
            # a guard on the string length around the push must let every positive length through
            import indexsites as _IS
            for l_, op_, r_, _x in _IS.facts_at(f, Rf, n['id']):
                if (substitute(l_, sub) if sub else l_) == 'arg0[0]' and re.match(r'^\d+$', str(r_)) and op_ in ('!=', '>', '>=', '=='):
                    k_ = int(r_)
                    if not {'!=': 1 != k_, '>': 1 > k_, '>=': 1 >= k_, '==': False}[op_]:
                        bad = 'the string is stored at %s only when dimension[0] %s %d: a value made of one-character strings is dropped' % (f.loc(n['id']), op_, k_)
            a = f.nodes[f.strip(n['args'][0], 'all')]
            pv = g.vertex_of.get(n['id'])
            if a['k'] == 'DeclRefExpr' and a['decl'].get('dk') == 'local':
                # the store must not depend on what the characters are: a value that is blank (or empty after trimming) is still a value -
                # the dimensions say how many strings there are, and the writer indexes them
                for l_, op_, r_, _x in _IS.facts_at(f, Rf, n['id']):
                    if l_ == 'local:%s.size' % a['decl'].get('name') and str(r_) == '0' and op_ in ('>', '!='):
                        bad = 'the string is stored at %s only when it is not empty after trimming: a blank value is dropped although the dimensions declare it (no string for a declared width)' % f.loc(n['id'])
                if not trimmed_local(f, a['decl']['id'], pv):
                    bad = 'string pushed at %s without trailing-space trimming' % f.loc(n['id'])
                    continue
                ws = join_width(f, sub, a['decl']['id'])
                if ws is None:
                    unknown = 'the string pushed at %s is not built by appending in a counted loop' % f.loc(n['id'])
                elif ws != {'arg0[0]'}:
                    bad = 'the string pushed at %s is joined from %s cells, not dimension[0]' % (f.loc(n['id']), sorted(ws))
                else:
                    joins_ok += 1
            elif a['k'] == 'CallExpr' and a.get('callee', {}).get('inrepo'):
                hf = prog.funcs.get(a['callee']['usr'])
                rets = [hf.nodes[hf.strip(r_['ch'][0], 'all')] for r_ in hf.all_nodes({'ReturnStmt'}) if r_['ch']] if hf is not None and hf.body is not None else []
                if hf is None or not rets or any(r_['k'] != 'DeclRefExpr' or r_['decl'].get('dk') != 'local' for r_ in rets):
                    unknown = 'the value pushed at %s comes from %s, which the rule cannot read' % (f.loc(n['id']), a['callee'].get('qname'))
                    continue
                hg = hf.events()
                hsub = {'arg%d' % k: (substitute(Rf.render(x), sub) if sub else Rf.render(x)) for k, x in enumerate(f.call_args(a))}
                okh = True
                for r_ in hf.all_nodes({'ReturnStmt'}):
                    rn = hf.nodes[hf.strip(r_['ch'][0], 'all')]
                    if not trimmed_local(hf, rn['decl']['id'], hg.vertex_of.get(r_['id'])):
                        bad = 'string returned by %s at %s without trailing-space trimming' % (hf.name, hf.loc(r_['id']))
                        okh = False
                        continue
                    ws = join_width(hf, hsub, rn['decl']['id'])
                    if ws is None:
                        unknown = 'the string returned by %s is not built by appending in a counted loop' % hf.name
                        okh = False
                    elif ws != {'arg0[0]'}:
                        bad = 'the string pushed at %s is joined from %s cells, not dimension[0]' % (f.loc(n['id']), sorted(ws))
                        okh = False
                if okh:
                    joins_ok += 1
            else:
                unknown = 'the value pushed at %s (%s) is not a local string or the result of a helper' % (f.loc(n['id']), a['k'])
    if bad:
        res.viol(rule, 'parameter.char.assembly', g2.loc(), bad, function=g2.sig, expr='parameter.char.assembly')
    elif unknown or pushes == 0 or joins_ok < pushes:
        res.undecided(rule, 'parameter.char.assembly', g2.loc(), (unknown or 'no store of an assembled string found') + ' [shape not read by the rule]', function=g2.sig, expr='parameter.char.assembly')
    else:
        res.ok(rule, 'parameter.char.assembly', g2.loc(), 'dimension[0] characters per string, trailing spaces trimmed, at each of the %d places a string is stored' % pushes, function=g2.sig, expr='parameter.char.assembly')
    # _dispatchMatrix threads its input index through the recursion (returns it; caller assigns it)
    Rd = Renderer(dm)
    rets = [Rd.render(n['ch'][0]) for n in dm.all_nodes({'ReturnStmt'}) if n['ch']]
    rec_assign = [n for n in dm.all_nodes({'BinaryOperator'}) if n['op'] == '=' and Rd.render(n['ch'][0]) == 'arg3' and any(dm.nodes[x]['k'] == 'CXXMemberCallExpr' and dm.nodes[x]['callee']['usr'] == dm.usr for x in dm.descendants(n['ch'][1]))]
    incs = [n for n in dm.all_nodes({'UnaryOperator'}) if n['op'] == '++' and Rd.render(n['ch'][0]) == 'arg3']
    others = [n for n in dm.all_nodes({'BinaryOperator', 'CompoundAssignOperator'}) if n.get('op') in ('=', '+=') and Rd.render(n['ch'][0]) == 'arg3' and n not in rec_assign]
    if set(rets) == {'arg3'} and len(rec_assign) == 1 and len(incs) == 1 and not others:
        res.ok(rule, 'parameter.char.index', dm.loc(), 'input index advances once per character and is threaded through the recursion', function=dm.sig, expr='parameter.char.index')
    elif set(rets) == {'arg3'} and len(rec_assign) == 1 and not incs and len(others) == 1 and others[0]['k'] == 'CompoundAssignOperator' and Rd.render(others[0]['ch'][1]) in ('arg0[0]', '(unsigned long)arg0[0]'):
        res.ok(rule, 'parameter.char.index', dm.loc(), 'input index advances by dimension[0] per string and is threaded through the recursion', function=dm.sig, expr='parameter.char.index')
    elif set(rets) == {'arg3'} and len(rec_assign) == 1 and not incs and len(others) == 1 and others[0]['k'] == 'BinaryOperator' and _advances_by_helper(prog, dm, Rd, others[0]):
        res.ok(rule, 'parameter.char.index', dm.loc(), 'input index is advanced by dimension[0] by the joining helper (it returns first + count) and is threaded through the recursion',
               function=dm.sig, expr='parameter.char.index')
    elif [c_ for c_ in dm.calls() if c_['callee']['usr'] == dm.usr] and not rec_assign and not dm.params[3]['type'].endswith('&') and \
            (dm.rec['ret'] == 'void' or not rets):
        res.viol(rule, 'parameter.char.index', dm.loc(), 'the running input index is passed by value into the recursion and nothing brings the advanced value back (the function returns %s, the recursive '
                 'call\'s result is not stored): after each inner matrix the caller continues from the old index, so slices repeat' % dm.rec['ret'], function=dm.sig, expr='parameter.char.index')
    elif not incs and not others:
        res.viol(rule, 'parameter.char.index', dm.loc(), 'the running input index of the string re-assembly never advances: every string would repeat the first cells', function=dm.sig, expr='parameter.char.index')
    else:
        res.undecided(rule, 'parameter.char.index', dm.loc(), 'the running input index of the string re-assembly is advanced in a form the rule does not read (known: ++ per character or += dimension[0] per string, '
                      'idx = recurse(...), return idx) [shape not read by the rule]', function=dm.sig, expr='parameter.char.index')


# ---------------------------------------------------------------------------------------------
# parameter section: prologue, walker, padding, block count, DATA_START

def interval_of_padding(expr):
    """'512 + -1*(X % 512)' with X % 512 in [0,511]  ->  (1, 512)"""
    m = re.match(r'^512 \+ -1\*\((.*) % 512\)$', expr)
    if m:
        return (1, 512), m.group(1)
    return None, None


def numeric_payload_rule(prog, res, rule='numeric-payload'):
    """numeric values are decoded with the numeric readers: c3d::readString builds its result from a C string, so a zero byte
    ends it - a run of BYTE / INT / REAL values read through it loses everything from the first 0x00 on"""
    n = 0
    for f in prog.fns('ezc3d::c3d::readParam'):
        pts = [p_['type'] for p_ in f.params]
        if not any('std::vector<int>' in t or 'std::vector<float>' in t for t in pts):
            continue
        n += 1
        fam = [f] + [h for h, _s in _helper_family(prog, [f]) if h is not f]
        hit = None
        for h in fam:
            for c in h.calls():
                if c['callee']['name'] == 'readString' and c['callee'].get('classq') == 'ezc3d::c3d':
                    hit = (h, c)
        inst = 'c3d::readParam(%s)' % ('int values' if any('std::vector<int>' in t for t in pts) else 'float values')
        if hit:
            res.viol(rule, inst, hit[0].loc(hit[1]['id']), 'numeric values are fetched with readString(): the std::string it returns ends at the first zero byte of the block, so the value 0 and everything after it in '
                     'that block are never decoded', function=f.sig, expr='readString-in-numeric', sure=True)
        else:
            res.ok(rule, inst, f.loc(), 'no string reader on the numeric path', function=f.sig, expr='readString-in-numeric@%s' % inst, nontrivial=False)
    res.minimum('numeric readParam overloads', n, 2)
    # ... and stay as decoded: Parameter::read hands its value vectors to the readers and does not touch the elements afterwards
    pr = prog.fn('ezc3d::ParametersNS::GroupNS::Parameter::read', nparams=2)
    fam = [pr] + [h for h, _s in _helper_family(prog, [pr]) if h is not pr and (h.rec.get('internal') or '(anonymous namespace)' in h.qname or h.cls == pr.cls)]
    touched = None
    unread_touch = None
    for h in fam:
        Rh = Renderer(h)
        for nd in h.nodes:
            lhs = None
            if nd['k'] == 'CompoundAssignOperator' or (nd['k'] == 'BinaryOperator' and nd.get('op') == '=') or (nd['k'] == 'UnaryOperator' and nd.get('op') in ('++', '--')):
                lhs = nd['ch'][0]
            elif nd['k'] == 'CXXOperatorCallExpr' and nd.get('op') in ('=', '+=', '-=', '*=', '/=') and nd.get('args'):
                lhs = nd['args'][0]
            if lhs is None:
                continue
            lt = Rh.render(lhs)
            if h is pr and re.match(r'^this\._param_data_(int|float)\[', lt):
                plain = (nd['k'] == 'BinaryOperator' and nd.get('op') == '=') or (nd['k'] == 'CXXOperatorCallExpr' and nd.get('op') == '=')
                rhs_ = (nd['ch'][1] if nd['k'] == 'BinaryOperator' else nd['args'][1]) if plain else None
                rt = Rh.render(rhs_) if rhs_ is not None else ''
                if plain and '_param_data_' not in rt:
                    # an element filled in place (from a reader, a constant ...): not a rewrite of a decoded value
                    if not any(h.nodes[x]['k'] == 'CXXMemberCallExpr' and h.nodes[x]['callee']['name'] in codec.READERS for x in h.descendants(rhs_)):
                        unread_touch = (h, nd['id'], lt)
                    continue
                touched = (h, nd['id'], lt)
    if touched:
        res.viol(rule, 'Parameter::read keeps the numeric values as decoded', touched[0].loc(touched[1]), 'element %s is rewritten after the payload was read: the loaded value is no longer the value the file encodes' % touched[2],
                 function=pr.sig, expr='payload-rewritten', sure=True)
    elif unread_touch:
        res.undecided(rule, 'Parameter::read keeps the numeric values as decoded', unread_touch[0].loc(unread_touch[1]), 'element %s is assigned in Parameter::read from something that is not a reader [shape not read by the rule]' % unread_touch[2],
                      function=pr.sig, expr='payload-rewritten')
    else:
        res.ok(rule, 'Parameter::read keeps the numeric values as decoded', pr.loc(), 'no element of _param_data_int / _param_data_float is assigned in Parameter::read', function=pr.sig, expr='payload-rewritten@0', nontrivial=False)



def char_range_widening_rule(prog, res, rule='char-range'):
    """raw bytes held in plain `char` (signed here) that are copied as a range into a container of a wider unsigned type are
    sign-extended: a byte of 128..255 becomes a number near 2^64.  Element-wise decoding through hex2uint / unsigned char is the
    library's way; the range forms (assign / insert / construction from two char iterators) are the ones that convert silently."""
    n = 0
    UNS = ('unsigned long', 'unsigned int', 'unsigned short', 'size_t', 'unsigned long long', 'std::size_t')
    for f in prog.repo_funcs():
        if f.body is None or f.implicit:
            continue
        for c in f.calls():
            k = c['k']
            cal = c.get('callee', {})
            dst_t = None
            args = f.call_args(c) if k not in ('CXXConstructExpr', 'CXXTemporaryObjectExpr') else c.get('args', [])
            if k == 'CXXMemberCallExpr' and cal.get('name') in ('assign', 'insert') and str(cal.get('classq', '')) == 'std::vector' and c.get('obj') is not None:
                dst_t = str(f.nodes[f.strip(c['obj'], 'all')].get('t', ''))
            elif k in ('CXXConstructExpr', 'CXXTemporaryObjectExpr') and str(cal.get('class', '')).startswith('std::vector'):
                dst_t = str(c.get('t', '') or cal.get('class', ''))
            if not dst_t:
                continue
            m = re.search(r'std::vector<([^,>]+)', dst_t)
            if not m or m.group(1).strip() not in UNS:
                continue
            its = [str(f.nodes[f.strip(a, 'noop')].get('t', '')) for a in args]
            chars = [t_ for t_ in its if re.search(r'__normal_iterator<(const )?char \*', t_) or re.match(r'^(const )?char \*$', t_)]
            if len(chars) >= 2:
                n += 1
                res.viol(rule, '%s: range of char into %s' % (f.name, m.group(0) + '>'), f.loc(c['id']), 'a range of plain `char` (signed) is converted element by element into %s: every byte of 128..255 is sign-extended '
                         '(255 becomes 18446744073709551615), so a count or size stored in one unsigned byte is misread above 127' % m.group(1).strip(), function=f.sig, expr='char-range@%s' % f.name, sure=True)
    if not n:
        res.ok(rule, 'no range of plain char is converted into a container of unsigned integers', 'src/', function='', expr='char-range', nontrivial=False)
    return n



def unsigned_dest_rule(prog, res, rule='unsigned-dest'):
    """a field read as an unsigned word lands in a member that can hold every value of that word: a member of a signed type that is
    not wider than the word (short for a 16-bit word, char for a byte) sign-extends the upper half when the getter widens it again"""
    n = 0
    readers = [('ezc3d::Header', prog.fn('ezc3d::Header::read', nparams=1)),
               ('ezc3d::ParametersNS::Parameters', prog.fn('ezc3d::ParametersNS::Parameters::Parameters', nparams=1)),
               ('ezc3d::ParametersNS::GroupNS::Group', prog.fn('ezc3d::ParametersNS::GroupNS::Group::read', nparams=2)),
               ('ezc3d::ParametersNS::GroupNS::Parameter', prog.fn('ezc3d::ParametersNS::GroupNS::Parameter::read', nparams=2))]
    for cq, f in readers:
        fields = {fl['name']: fl for fl in prog.classes.get(cq, {}).get('fields', [])}
        seq = codec.Extractor(prog, 'r').seq_of(f)
        for x in _walk({'items': seq}):
            if not (isinstance(x, tuple) and x[0] == 'io' and x[1].get('k') == 'readUint'):
                continue
            d = x[1]
            w = width_const(d)
            m = re.match(r'^this\.(\w+)$', d.get('dest') or '')
            if not w or not m or m.group(1) not in fields:
                continue
            fl = fields[m.group(1)]
            if fl.get('tc') not in ('s', 'u') or not fl.get('tw'):
                continue
            n += 1
            inst = '%s::%s <- unsigned %d-bit word' % (cq.split('::')[-1], fl['name'], 8 * w)
            if (fl['tc'] == 's' and fl['tw'] <= 8 * w) or fl['tw'] < 8 * w:
                res.viol(rule, inst, d['where'], 'the member is of type %s (%s, %d bits): the values %d..%d of the word do not fit and come back %s' %
                         (fl.get('type'), 'signed' if fl['tc'] == 's' else 'unsigned', fl['tw'], 1 << (min(fl['tw'], 8 * w) - (1 if fl['tc'] == 's' else 0)), (1 << (8 * w)) - 1,
                          'negative (sign-extended by the size_t getter)' if fl['tc'] == 's' else 'truncated'), function=f.sig, expr='dest:' + fl['name'], sure=True)
            else:
                res.ok(rule, inst, d['where'], 'member of type %s holds every value of the word' % fl.get('type'), function=f.sig, expr='dest:%s@%s' % (fl['name'], d['where']), nontrivial=False)
    res.minimum('unsigned words read into members', n, 10)
    return n


def primitive_read_rule(prog, res, rule='primitive-read'):
    """the primitive readers consume exactly the number of bytes they are asked for: readFile is called with the requested
    count itself (readFloat: the member constant 4); a clamped count (std::min, a conditional) leaves the stream short of the
    next field for every request above the clamp - e.g. a 255-character description"""
    n = 0
    for name in ('readInt', 'readUint', 'readString', 'readFloat'):
        for f in prog.fns('ezc3d::c3d::' + name):
            R = Renderer(f)
            calls = [c for c in f.calls() if c['callee']['name'] == 'readFile' and c['callee'].get('class') == 'ezc3d::c3d']
            inst = 'c3d::%s consumes what it is asked for' % name
            if len(calls) != 1:
                res.undecided(rule, inst, f.loc(), '%d calls of readFile [shape not read by the rule]' % len(calls), function=f.sig, expr='count:' + name)
                continue
            n += 1
            a0 = uncast_render(R.render(f.call_args(calls[0])[0]))
            want = ('arg0',) if name != 'readFloat' else ('this.m_nByteToRead_float', '4')
            if a0 in want or (name == 'readFloat' and re.match(r'^\(?(unsigned int|int)?\)?\(?4', a0)):
                res.ok(rule, inst, f.loc(calls[0]['id']), 'readFile(%s, ...)' % a0, function=f.sig, expr='count:' + name, nontrivial=False)
            elif re.search(r'std::min\(|std::max\(| \? ', a0) and 'arg0' in a0:
                res.viol(rule, inst, f.loc(calls[0]['id']), 'readFile is asked for %s bytes, not for the requested count: a request above the clamp consumes fewer bytes than the file holds for the field, and '
                         'everything after it is read from the wrong position' % a0, function=f.sig, expr='count:' + name, sure=True)
            else:
                res.undecided(rule, inst, f.loc(calls[0]['id']), 'readFile is asked for %s bytes [shape not read by the rule]' % a0, function=f.sig, expr='count:' + name)
    res.minimum('primitive readers', n, 3)


_PATCHES = {}


def patch_guard_rule(prog, res, rule='capacity-guard'):
    """a value that is back-patched into a slot may be refused only beyond the capacity of that slot: a guard
    `if (X > K) throw` on the patched value (in the function that performs the patch, e.g. a helper shared by
    several slots) needs K >= 2^(8 x slot width) - 1"""
    from result import Result as _R
    tmp = _R('x', 'quick', '')
    parameters_writer_rule(prog, tmp, 'x')
    n = 0
    for slot, (info, width) in sorted((_PATCHES.get(id(prog)) or {}).items()):
        if not info:
            continue
        d = info['item']
        fn_ = d['fn']
        Rf = Renderer(fn_)
        names = {d.get('src'), 'local:' + str(d.get('src_local'))}
        cap = (1 << (8 * width)) - 1
        for i in fn_.all_nodes({'IfStmt'}):
            if not any(fn_.nodes[x]['k'] == 'CXXThrowExpr' for x in fn_.descendants(i['then'])):
                continue
            c = fn_.nodes[fn_.strip(i['cond'], 'all')]
            if c['k'] != 'BinaryOperator' or c['op'] not in ('>', '>='):
                continue
            l, r = Rf.render(c['ch'][0]), fn_.nodes[fn_.strip(c['ch'][1], 'all')]
            l0 = re.sub(r'^\((?:unsigned |signed )?\w[\w ]*\)', '', l)
            if l0 not in names or 'cv' not in r:
                continue
            kmax = int(r['cv']) + (0 if c['op'] == '>' else -1)
            n += 1
            inst = 'guard on the value patched into %s' % slot
            if kmax < cap:
                res.viol(rule, inst, fn_.loc(i['id']), 'saving is refused when %s exceeds %d, but the value is patched into the %d-byte %s slot, which holds values up to %d: content within the format\'s '
                         'capacity is no longer saved' % (l0, kmax, width, slot, cap), function=fn_.sig, expr='patch-guard:' + slot)
            else:
                res.ok(rule, inst, fn_.loc(i['id']), 'limit %d >= capacity of the %d-byte slot' % (kmax, width), function=fn_.sig, expr='patch-guard:' + slot)
    return n


def induction_local(f, loop_id, name, use_id):
    """local `name` is initialised to a constant before loop `loop_id` and changed exactly once per iteration, unconditionally,
    by ++ / -- / += c / -= c at the top level of the loop body: -> (c0, step, updated_before_use) else None"""
    did = None
    c0 = None
    for n in f.all_nodes({'DeclStmt'}):
        for d in n['decls']:
            if d['name'] == name and 'init' in d and n['id'] < loop_id:
                iv = f.nodes[f.strip(d['init'], 'all')]
                if iv.get('cv') is not None:
                    did, c0 = d['id'], int(iv['cv'])
    if did is None:
        return None
    lp = f.nodes[loop_id]
    body = f.nodes[lp['body']] if 'body' in lp else None
    if body is None or body['k'] != 'CompoundStmt':
        return None
    ups = []
    for x in f.descendants(loop_id):
        m = f.nodes[x]
        t = None
        step = None
        if m['k'] == 'UnaryOperator' and m['op'] in ('++', '--'):
            t, step = f.nodes[f.strip(m['ch'][0], 'all')], (1 if m['op'] == '++' else -1)
        elif m['k'] == 'CompoundAssignOperator' and m.get('op') in ('+=', '-='):
            t = f.nodes[f.strip(m['ch'][0], 'all')]
            r = f.nodes[f.strip(m['ch'][1], 'all')]
            step = (int(r['cv']) if r.get('cv') is not None else None)
            if step is not None and m['op'] == '-=':
                step = -step
        elif m['k'] == 'BinaryOperator' and m['op'] == '=':
            t = f.nodes[f.strip(m['ch'][0], 'all')]
            if t['k'] == 'DeclRefExpr' and t['decl'].get('id') == did:
                return None
            t = None
        if t is not None and t['k'] == 'DeclRefExpr' and t['decl'].get('id') == did:
            if step is None:
                return None
            # must be a direct statement of the loop body (unconditional, once per iteration)
            top = x
            while f.nodes[top].get('p') is not None and f.nodes[top]['p'] != body['id']:
                top = f.nodes[top]['p']
                if f.nodes[top]['k'] in ('IfStmt', 'ForStmt', 'WhileStmt', 'DoStmt', 'CXXForRangeStmt', 'SwitchStmt', 'ConditionalOperator'):
                    return None
            if f.nodes[top].get('p') != body['id']:
                return None
            ups.append((x, step, top))
    if len(ups) != 1:
        return None
    x, step, top = ups[0]
    # position of the update relative to the use, as statements of the body
    order = list(body['ch'])
    utop = use_id
    while f.nodes[utop].get('p') is not None and f.nodes[utop]['p'] != body['id']:
        utop = f.nodes[utop]['p']
    if top not in order or utop not in order:
        return None
    # nothing may leave the iteration between the two (a `continue` before the update would skip it)
    for st in order[:order.index(top)]:
        if any(f.nodes[y]['k'] == 'ContinueStmt' for y in [st] + list(f.descendants(st))):
            return 'skips'     # iterations that `continue` before the update do not advance the counter
    return c0, step, order.index(top) < order.index(utop)


def id_of_position(f, lp, call_item, arg):
    """is the id expression handed to the record writer equal to -(position + 1)?  -> 'ok' / 'wrong' / 'unknown'"""
    i = lp[2]
    if arg in ('-((int)(local:%s + 1))' % i, '-((int)(1 + local:%s))' % i, '-(int)(local:%s + 1)' % i):
        return 'ok'
    names = set(re.findall(r'local:(\w+)', arg or ''))
    if not names or len(names) != 1:
        return 'unknown' if arg and 'local:' not in arg else ('wrong' if names == {i} else 'unknown')
    nm = names.pop()
    if nm == i:
        # an expression of the loop index itself: evaluate it
        vals = []
        for k in range(4):
            e = re.sub(r'\((?:unsigned long|unsigned int|int|long|size_t)\)', '', arg).replace('local:' + nm, str(k))
            if not re.match(r'^[\d\s()+\-*]+$', e):
                return 'unknown'
            vals.append(eval(e))
        return 'ok' if vals == [-(k + 1) for k in range(4)] else 'wrong'
    ind = induction_local(f, lp[4], nm, call_item[4] if len(call_item) > 4 and isinstance(call_item[4], int) else lp[4])
    if ind == 'skips':
        return 'skips'
    if ind is None:
        return 'unknown'
    c0, step, before = ind
    vals = []
    for k in range(4):
        v = c0 + step * (k + 1 if before else k)
        e = re.sub(r'\((?:unsigned long|unsigned int|int|long|size_t)\)', '', arg).replace('local:' + nm, '(%d)' % v)
        if not re.match(r'^[\d\s()+\-*]+$', e):
            return 'unknown'
        vals.append(eval(e))
    return 'ok' if vals == [-(k + 1) for k in range(4)] else 'wrong'


def _top_split(cond, op):
    """operands of a top-level chain of `op` in a rendered condition (outer parentheses removed)"""
    c = cond.strip()
    while c.startswith('(') and c.endswith(')'):
        depth, ok = 0, True
        for i_, ch in enumerate(c):
            depth += ch == '('
            depth -= ch == ')'
            if depth == 0 and i_ < len(c) - 1:
                ok = False
                break
        if not ok:
            break
        c = c[1:-1].strip()
    parts, depth, cur, i_ = [], 0, '', 0
    while i_ < len(c):
        ch = c[i_]
        depth += ch == '('
        depth -= ch == ')'
        if depth == 0 and c.startswith(' %s ' % op, i_):
            parts.append(cur.strip())
            cur = ''
            i_ += len(op) + 2
            continue
        cur += ch
        i_ += 1
    parts.append(cur.strip())
    out = []
    for p_ in parts:
        out.extend(_top_split(p_, op) if (p_.startswith('(') and p_ != c and len(parts) > 1 and ' %s ' % op in p_) else [p_])
    return out


def _extra_group_condition(cond, guards, skips, then_writes, else_writes):
    """the record of a group is written under `named && X` (or skipped under `unnamed || X'`) with X not about the name: -> X, else None"""
    def norm(x):
        x = x.strip()
        return x
    if then_writes and not else_writes:
        parts = _top_split(cond, '&&')
        named = [p_ for p_ in parts if p_ in guards or '(%s)' % p_ in guards or p_.strip('()') in [g_.strip('()') for g_ in guards]]
        rest = [p_ for p_ in parts if p_ not in named]
        if len(parts) >= 2 and named and rest and all('_name' not in r_ for r_ in rest):
            return ' && '.join(rest)
    if else_writes and not then_writes:
        parts = _top_split(cond, '||')
        unnamed = [p_ for p_ in parts if p_ in skips or p_.strip('()') in [g_.strip('()') for g_ in skips]]
        rest = [p_ for p_ in parts if p_ not in unnamed]
        if len(parts) >= 2 and unnamed and rest and all('_name' not in r_ for r_ in rest):
            return 'not (%s)' % ' || '.join(rest)
    return None


def parameters_writer_rule(prog, res, rule='parameters-write'):
    spec = load_spec()
    f = prog.fn('ezc3d::ParametersNS::Parameters::write', nparams=1)
    ex = codec.Extractor(prog, 'w')
    # top level only: do not splice Group::write
    seq = ex.seq_of(f)
    ck = Checker(prog, res, rule, f, seq, 'prologue')
    PL = {s['name']: s for s in spec['parameter_prologue']}
    ck.w_object('reserved_first_block', 1, src='this._parametersStart', cite=PL['reserved_first_block']['cite'])
    ck.w_object('key', 1, vals=['80'], cite=PL['key']['cite'])
    var = ck.slot_open('block_count', 1, cite=PL['block_count']['cite'])
    ck.w_object('processor', 1, vals=['84'], cite=PL['processor']['cite'])
    # groups: one record per position, id = -(i+1)
    ds_var = ['local:dataStartPosition']      # the local handed to Group::write to receive the position of the DATA_START value (named by the call below)
    lp = ck.take(('loop',))
    if lp is None or pshow(lp[1]) != 'this._groups.size':
        ck.bad('groups', ck.where(lp), 'expected one group record per group, found %s' % describe(lp))
    else:
        inner = io_only(lp[3])
        # placeholder guard: a record with a zero-length name is the end-of-section marker, so
        # unnamed groups (placeholders of unused ids) must not be emitted
        i = lp[2]
        elems = ('this.group(local:%s)' % i, 'this._groups[local:%s]' % i, 'this._groups[(unsigned long)local:%s]' % i, 'this._groups.at(local:%s)' % i)
        guards = tuple(g_ % e_ for e_ in elems for g_ in ('!(%s._name.empty())', '(%s._name.size > 0)', '(%s._name.size != 0)', '!((bool)%s._name.empty())', '!(%s._name.size == 0)'))
        skips = tuple(g_ % e_ for e_ in elems for g_ in ('%s._name.empty()', '(%s._name.size == 0)', '(bool)%s._name.empty()', '!(%s._name.size > 0)'))
        if len(inner) == 1 and inner[0][0] == 'alt' and inner[0][1] in guards and not io_only(inner[0][3]):
            ck.ok('groups.placeholder-guard', ck.where(inner[0]), 'unnamed placeholder groups are skipped (a zero-length name would terminate the section)')
            inner = io_only(inner[0][2])
        elif len(inner) == 1 and inner[0][0] == 'alt' and inner[0][1] in skips and not io_only(inner[0][2]):
            ck.ok('groups.placeholder-guard', ck.where(inner[0]), 'unnamed placeholder groups are skipped (a zero-length name would terminate the section)')
            inner = io_only(inner[0][3])
        elif len(inner) == 1 and inner[0][0] == 'alt' and '_name' in str(inner[0][1]) and _extra_group_condition(str(inner[0][1]), guards, skips, bool(io_only(inner[0][2])), bool(io_only(inner[0][3]))):
            extra = _extra_group_condition(str(inner[0][1]), guards, skips, bool(io_only(inner[0][2])), bool(io_only(inner[0][3])))
            ck.bad('groups.placeholder-guard', ck.where(inner[0]), 'a group record is written only when the group is named AND %s: a named group for which that fails is left out of the saved file '
                   '(only unnamed placeholders may be skipped)' % extra)
            inner = io_only(inner[0][2]) or io_only(inner[0][3])
        elif len(inner) == 1 and inner[0][0] == 'alt' and '_name' in str(inner[0][1]):
            ck.shape('groups.placeholder-guard', ck.where(inner[0]), 'the records are written under the condition %s, which the rule does not tabulate' % str(inner[0][1])[:120])
            inner = io_only(inner[0][2]) or io_only(inner[0][3])
        else:
            ck.bad('groups.placeholder-guard', ck.where(lp), 'every position is written, including the unnamed placeholder groups the reader inserts for unused ids: '
                   'a zero-length name is the end-of-section marker, so all later groups are lost on the next load')
            if len(inner) == 1 and inner[0][0] == 'alt':
                inner = io_only(inner[0][2])
        okc = len(inner) == 1 and inner[0][0] == 'call' and inner[0][1].qname.endswith('Group::write')
        if okc:
            sub = inner[0][2]
            idv = id_of_position(f, lp, inner[0], sub.get('arg1'))
            ds_ok = bool(re.match(r'^local:\w+(\.\w+)*$', str(sub.get('arg2'))))      # a local position (whatever its name) that receives the DATA_START slot
            if ds_ok:
                ds_var[0] = str(sub.get('arg2'))
            if sub.get('this') in elems and idv == 'ok' and ds_ok:
                ck.ok('groups', ck.where(lp), 'element i is written with id -(i+1) and the DATA_START position, for every position i: position i <-> id -(i+1)')
            elif sub.get('this') in elems and idv == 'skips':
                ck.bad('groups', ck.where(lp), 'the id handed to Group::write (%s) comes from a counter that skipped positions do not advance: a group behind an unused id is written under the id of an earlier '
                       'position, and its parameters are attached to another group on the next load' % sub.get('arg1'))
            elif sub.get('this') in elems and (idv == 'unknown' or (idv == 'ok' and not ds_ok)):
                ck.shape('groups', ck.where(lp), 'the id handed to Group::write is %s, which the rule cannot relate to the position' % sub.get('arg1'))
            else:
                ck.bad('groups', ck.where(lp), 'group records are written with %s; positions must map to ids -(i+1)' % {k: v for k, v in sub.items() if k != '#scope'})
        else:
            ck.bad('groups', ck.where(lp), 'loop body is not exactly one Group::write call')
    # padding to a block boundary: tell -> pos; loop x(512 - pos % 512) zero bytes
    t = ck.take(('slot',))
    lp = ck.take(('loop', 'io'))
    if lp is not None and lp[0] == 'io':
        # a single write of a zero-filled buffer of the same length
        d = lp[1]
        if d.get('srck') == 'zeros' and d.get('width') is not None and P.equal(d['width'], d['zeros_n']):
            lp = ('loop', d['width'], None, [('io', dict(d, srck='object', src='zeros', src_vals=[{}], width=P.const(1), src_tc='s', src_tw=8))], d['node'], d['fn'])
        else:
            ck.bad('padding', d['where'], 'expected the zero padding after the last group, found %s' % describe(lp))
            lp = None
            t = None
    if t is None or t[1] != 'tell' or lp is None:
        ck.bad('padding', ck.where(lp or t), 'expected tell() and a zero-padding loop after the last group')
    else:
        iv, x = interval_of_padding(pshow(lp[1]))
        if iv is None and (lp[1] is None or '% 512' not in pshow(lp[1])):
            # a countdown / a count kept in a local: the number of padding bytes is not an expression the rule reads
            ck.shape('padding', ck.where(lp), 'the padding loop runs %s times: not an expression over the stream position the rule reads (expected 512 - position %% 512)' % pshow(lp[1]))
        elif iv is None or x not in ('(int)%s.operator long()' % t[2], '%s.operator long()' % t[2], '(int)(long)%s' % t[2]):
            ck.bad('padding', ck.where(lp), 'padding count is %s; the section must end on a block boundary and contain at least one zero byte (the chain terminator): '
                   'count must be 512 - (position %% 512), i.e. in [1,512]' % pshow(lp[1]))
        else:
            c = Checker(prog, res, rule, f, lp[3], 'prologue')
            c.w_object('padding.byte', 1, vals=['0'])
            c.done('padding.tail')
            if not c.failed:
                ck.ok('padding', ck.where(lp), '512 - (position %% 512) zero bytes: in [1,512], so the terminator byte is always present and the section ends on a block boundary')
    # back-patches
    p1 = None
    if var is not None:
        p1 = ck.slot_patch('block_count', var, 1)
    p2 = ck.slot_patch('data_start', ds_var[0], 2)
    _PATCHES[id(prog)] = {'block_count': (p1, 1), 'data_start': (p2, 2)}
    ck.done()
    # the DATA_START slot is opened by Parameter::write through the out parameter (checked there)
    return p2


def sign_carry_rule(prog, res, rule, walker, nl):
    """the sign of the name-length byte is the lock flag of the record: it reaches Group::read / Parameter::read as it was read.
    (a) the walker's variable is not rewritten between the read and the hand-over, unless the flag is re-applied with lock() under
    a test saved from the sign; (b) Group::parameter(c3d&, int) hands its length argument to Parameter::read unchanged."""
    if nl is None:
        return
    R = Renderer(walker)
    var = re.sub(r'@\d+$', '', nl)
    rewrites = []
    for n in walker.all_nodes({'BinaryOperator'}):
        if n['op'] == '=' and R.render(n['ch'][0]) == var and not any(walker.nodes[x]['k'] == 'CXXMemberCallExpr' and walker.nodes[x]['callee']['name'] in codec.READERS for x in walker.descendants(n['ch'][1])):
            rewrites.append(n)
    calls = [c for c in walker.calls() if c['callee']['qname'].endswith('GroupNS::Group::read') or (c['callee']['qname'].endswith('GroupNS::Group::parameter') and c['callee'].get('nparams') == 2)]
    g = walker.events()
    for c in calls:
        what = 'group' if c['callee']['name'] == 'read' else 'parameter'
        inst = 'walker.sign.%s' % what
        args = walker.call_args(c)
        a1 = R.render(args[1]) if len(args) > 1 else None
        cv = g.vertex_of.get(c['id'])
        before = [n for n in rewrites if cv is not None and g.vertex_of.get(n['id']) is not None and cv in g.reach([g.vertex_of[n['id']]])]
        if a1 == var and not before:
            res.ok(rule, inst, walker.loc(c['id']), 'the %s record reader receives the name length as read (sign = lock flag)' % what, function=walker.sig, expr=inst)
            continue
        dropped = (a1 is not None and re.match(r'^(?:\(int\))?abs\(%s\)$' % re.escape(var), a1)) or (a1 == var and before and all(re.match(r'^(?:\(int\))?abs\(%s\)$' % re.escape(var), R.render(n['ch'][1])) for n in before))
        if dropped:
            # re-applied afterwards?  obj.lock() on the same object, under a bool saved from (var < 0) before the rewrite
            obj = R.render(walker.call_obj(c)) if walker.call_obj(c) is not None else None
            comp = False
            for l_ in walker.calls():
                if l_['callee']['name'] == 'lock' and walker.call_obj(l_) is not None and R.render(walker.call_obj(l_)) == obj and cv is not None and g.vertex_of.get(l_['id']) is not None and g.dominates(cv, g.vertex_of[l_['id']]):
                    import indexsites as _ISx
                    for fl_, op_, fr_, _x in _ISx.facts_at(walker, R, l_['id']):
                        if ('(%s < 0)' % var) in str(fl_) or (str(fl_) == var and op_ == '<' and str(fr_) == '0'):
                            comp = True
                    for i_ in walker.all_nodes({'IfStmt'}):
                        if l_['id'] in walker.descendants(i_['then']):
                            cn = walker.nodes[walker.strip(i_['cond'], 'all')]
                            if cn['k'] == 'DeclRefExpr' and cn['decl'].get('dk') == 'local':
                                from paths import local_init as _li2
                                ini = _li2(walker, cn['decl']['id'])
                                if ini is not None and R.render(ini).replace('(bool)', '') in ('(%s < 0)' % var, '(0 > %s)' % var):
                                    comp = True
            if comp:
                res.ok(rule, inst, walker.loc(c['id']), 'the sign is taken off the name length and re-applied with lock() under the saved test', function=walker.sig, expr=inst)
            else:
                res.viol(rule, inst, walker.loc(c['id']), 'the %s record reader receives the name length without its sign and the lock flag is not re-applied: every locked %s loads as unlocked' % (what, what),
                         function=walker.sig, expr=inst, sure=True)
            continue
        res.undecided(rule, inst, walker.loc(c['id']), 'the name length reaches the %s record reader as %s after the variable was rewritten: not a form the rule reads [shape not read by the rule]' % (what, a1),
                      function=walker.sig, expr=inst)
    gp = [f_ for f_ in prog.fns('ezc3d::ParametersNS::GroupNS::Group::parameter') if len(f_.params) == 2 and 'c3d' in f_.params[0]['type']]
    for f_ in gp:
        Rg = Renderer(f_)
        for c in f_.calls():
            if not c['callee']['qname'].endswith('GroupNS::Parameter::read'):
                continue
            args = f_.call_args(c)
            a1 = Rg.render(args[1]) if len(args) > 1 else None
            inst = 'group.parameter.sign'
            if a1 == 'arg1':
                res.ok(rule, inst, f_.loc(c['id']), 'Group::parameter hands the name length to Parameter::read as received', function=f_.sig, expr=inst)
            elif a1 is not None and (' ? ' in a1 or re.search(r'-\(?abs\(|^-|\(-', a1) or re.match(r'^(?:\(int\))?abs\(arg1\)$', a1)):
                res.viol(rule, inst, f_.loc(c['id']), 'Parameter::read receives %s instead of the name length as read: the lock flag of the parameter no longer comes from its own record' % a1, function=f_.sig, expr=inst, sure=True)
            else:
                res.undecided(rule, inst, f_.loc(c['id']), 'Parameter::read receives %s [shape not read by the rule]' % a1, function=f_.sig, expr=inst)


def parameters_reader_rule(prog, res, rule='parameters-read'):
    spec = load_spec()
    PL = {s['name']: s for s in spec['parameter_prologue']}
    f = prog.fn('ezc3d::ParametersNS::Parameters::Parameters', nparams=1)
    ex = codec.Extractor(prog, 'r')
    seq = [it for it in ex.seq_of(f)]
    ck = RChecker(prog, res, rule, f, seq, 'prologue')
    ck.r_field('reserved_first_block', 'readUint', 1, dest='this._parametersStart',
               seek=('-512 + arg0._header._nbOfZerosBeforeHeader + 512*arg0._header._parametersAddress', '0'), cite=spec['section_offsets']['cite'])
    ck.r_field('key', 'readUint', 1, dest='this._checksum', cite=PL['key']['cite'])
    ck.r_field('block_count', 'readUint', 1, dest='this._nbParamBlock', cite=PL['block_count']['cite'])
    ck.r_field('processor', 'readUint', 1, dest='this._processorType', cite=PL['processor']['cite'])
    if ck.failed:
        # the prologue is not in the tabulated form: which of the following loops is the record walker is not established
        ck.shape('walker', ck.where(ck.peek()), 'the prologue is not read field by field in the tabulated form; the record-chain loop is not identified')
        return
    ck.skip_slots()
    lp = ck.take(('loop',))
    if lp is None:
        ck.shape('walker', ck.where(ck.peek()), 'expected the record-chain loop, found %s' % _describe(ck.peek()))
        return
    w = RChecker(prog, res, rule, f, lp[3], 'walker')
    w.skip_slots()
    d1 = w.r_field('name_len', 'readInt', 1, cite=spec['group_record'][0]['cite'])
    d2 = w.r_field('id', 'readInt', 1, cite=spec['group_record'][1]['cite'])
    nl = d1.get('dest') if d1 else None
    idv = d2.get('dest') if d2 else None
    alt = w.take(('alt',))
    o = orient(alt, ('(%s < 0)' % idv, '(0 > %s)' % idv)) if alt is not None and idv is not None else None
    if o is None and alt is not None and idv is not None and re.match(r'^\(%s (<=|>|>=|==|!=) 0\)$|^\(0 (<|<=|>=|==|!=) %s\)$' % (re.escape(idv), re.escape(idv)), alt[1]):
        w.bad('dispatch', w.where(alt), 'records are dispatched on %s; the format says: negative id = group record, positive id = parameter record (id 0 is neither)' % alt[1])
    elif o is None:
        w.bad('dispatch', w.where(alt), 'records must be dispatched on the sign of the id byte (negative = group), found %s' % describe(alt))
    else:
        th, el = io_only(o[0]), io_only(o[1])
        def pos_of(r):
            m_ = re.match(r'^this\.(?:group\((.*)\)|_groups\[(.*)\])$', r or '')
            if not m_:
                return None
            x = m_.group(1) or m_.group(2)
            return re.sub(r'\((?:unsigned long|size_t|unsigned int|int)\)', '', x).replace('((', '(').strip()
        # the name length as read, or its magnitude (what becomes of the sign - the lock flag - is judged by the sign-carry rule below)
        nl_ok = lambda a_: a_ is not None and nl is not None and re.sub(r'^\(int\)', '', a_) in (nl, 'abs(%s)' % nl)
        okg = len(th) == 1 and th[0][0] == 'call' and th[0][1].qname.endswith('Group::read') and \
            pos_of(th[0][2].get('this')) in ('(abs(%s) - 1)' % idv, 'abs(%s) - 1)' % idv, '(abs(%s) - 1' % idv) and nl_ok(th[0][2].get('arg1'))
        okp = len(el) == 1 and el[0][0] == 'call' and el[0][1].qname.endswith('Group::parameter') and \
            pos_of(el[0][2].get('this')) in ('(%s - 1)' % idv, '%s - 1)' % idv, '(%s - 1' % idv, '(abs(%s) - 1)' % idv, 'abs(%s) - 1)' % idv, '(abs(%s) - 1' % idv) and nl_ok(el[0][2].get('arg1'))
        if okg and okp:
            w.ok('dispatch', w.where(alt), 'id < 0: group record into position |id|-1; id > 0: parameter record into group position id-1 (inverse of the writer\'s -(i+1))')
        else:
            w.bad('dispatch', w.where(alt), 'group/parameter records are not routed to position |id|-1 with the name length passed on: %s / %s' %
                  (th[0][2] if th and th[0][0] == 'call' else th, el[0][2] if el and el[0][0] == 'call' else el))
    w.done()
    ck.done()
    sign_carry_rule(prog, res, rule, f, nl)
    # terminator: a zero name length ends the chain; consistency check of the chain position
    term = False
    chain = False
    nl0 = re.sub(r'@\d+$', '', nl) if nl else None
    # the constructor and the non-public members / file-local helpers it delegates to
    fam = [f]
    for u in prog.reachable_from([f]):
        h = prog.funcs.get(u)
        if h is not None and h is not f and h.body is not None and ((h.cls == f.cls and h.rec.get('access') in ('private', 'protected')) or h.rec.get('internal') or '(anonymous namespace)' in h.qname):
            fam.append(h)
    exits = 0
    for h in fam:
        R = Renderer(h)
        for n in h.all_nodes({'IfStmt'}):
            c = R.render(n['cond'])
            body = [h.nodes[x]['k'] for x in h.descendants(n['then'])]
            if nl0 and c in ('(%s == 0)' % nl0, '(0 == %s)' % nl0, '!((bool)%s)' % nl0) and ('BreakStmt' in body or 'ReturnStmt' in body):
                term = True
            if 'BreakStmt' in body or 'ReturnStmt' in body:
                exits += 1
            if 'tellg' in c and 'nextParamByteInFile' in c and '!=' in c.replace('operator!=', '!='):
                ths = [h.nodes[x] for x in h.descendants(n['then']) if h.nodes[x]['k'] == 'CXXThrowExpr']
                if ths and all(t.get('throw_t') == 'std::ios_base::failure' for t in ths):
                    chain = True
    if term:
        res.ok(rule, 'walker.terminator', f.loc(), 'a zero name-length byte ends the record chain', function=f.sig, expr='walker.terminator')
    elif nl0 is None or exits:
        res.undecided(rule, 'walker.terminator', f.loc(), 'the exit of the record chain on a zero name-length byte is not in a form the rule reads [shape not read by the rule]', function=f.sig, expr='walker.terminator')
    else:
        res.viol(rule, 'walker.terminator', f.loc(), 'the record chain is not terminated by a zero name-length byte: nothing leaves the record loop', function=f.sig, expr='walker.terminator')
    if chain:
        res.ok(rule, 'walker.chain', f.loc(), 'each record must start where the previous next-offset pointed, else std::ios_base::failure', function=f.sig, expr='walker.chain')
    else:
        usest = any(n_['k'] == 'CXXMemberCallExpr' and n_['callee']['name'] == 'tellg' for h in fam for n_ in h.nodes)
        (res.undecided if usest else res.viol)(rule, 'walker.chain', f.loc(), 'no consistency check between the stream position and the previous record\'s next-offset' +
                                               (' in a form the rule reads [shape not read by the rule]' if usest else ': the stream position is never consulted'), function=f.sig, expr='walker.chain')


def data_offset_rule(prog, res, rule='data-offset'):
    spec = load_spec()
    f = prog.fn('ezc3d::DataNS::Data::Data', nparams=1)
    seq = io_only(codec.Extractor(prog, 'r').seq_of(f))
    first = next((it for it in seq if it[0] == 'io'), None)
    want = '-512 + arg0._header._nbOfZerosBeforeHeader + 512*arg0._header._parametersAddress + 512*arg0._parameters._nbParamBlock'
    if (first is None or 'skip' not in first[1]) and any(c_['callee']['name'] in ('seekg', 'seekp') and c_['k'] == 'CXXMemberCallExpr' for c_ in f.calls()):
        res.undecided(rule, 'data.offset', f.loc(), 'the data reader positions the stream with an explicit seekg(): the offset is not tabulated in that form [shape not read by the rule]', function=f.sig, expr='data.offset')
    elif first is None or 'skip' not in first[1]:
        res.viol(rule, 'data.offset', f.loc(), 'the data reader does not seek to the data section', function=f.sig, expr='data.offset')
        return
    d = first[1]
    w = width_const(d) or 0
    got = P.add(d['skip'], P.const(w))
    if pshow(got) == want and d.get('whence') == '0':
        res.ok(rule, 'data.offset', d['where'], 'data section at 512*(parameter_block-1) + leading_zeros + 512*block_count from the beginning of the file', function=f.sig, expr='data.offset',
               facts={'cite': spec['section_offsets']['cite']})
    else:
        res.viol(rule, 'data.offset', d['where'], 'data section is read from %s (whence %s); specified %s from the beginning of the file' % (pshow(got), d.get('whence'), want),
                 function=f.sig, expr='data.offset', facts={'cite': spec['section_offsets']['cite']})


# ---------------------------------------------------------------------------------------------
# frames

def frame_reader_rule(prog, res, rule='frame-read'):
    """per header frame: header point count x (x, y, z, residual as REAL), then sub-frames (outer) x
    channels (inner) x one REAL; stored at the same indices.  Decided on the I/O tree with file-local
    helpers spliced in; a structure the rule does not read is UNDECIDED."""
    f = prog.fn('ezc3d::DataNS::Data::Data', nparams=1)
    seq = io_only(codec.Extractor(prog, 'r').seq_of(f))
    def has_read(it):
        return any(isinstance(x, tuple) and x[0] == 'io' and x[1].get('k') in codec.READERS for x in _walk({'items': [it]}))
    loops = [it for it in seq if it[0] == 'loop' and has_read(it)]
    inst = 'frame.layout'
    FRAMES = ('arg0._header.nbFrames()',)
    if len(loops) != 1:
        res.undecided(rule, inst, f.loc(), 'expected one loop over the header frame count, found %d loops with reads [shape not read by the rule]' % len(loops), function=f.sig, expr=inst)
        return
    if pshow(loops[0][1]) == 'this._frames.size':
        # the loop walks the frame store itself: the same count when the store was sized with the header frame count beforehand (and only then)
        Rf_ = Renderer(f)
        g_ = f.events()
        lv_ = g_.vertex_of.get(loops[0][4])
        rs_ = [c_ for c_ in f.calls() if c_['callee']['name'] == 'resize' and c_.get('obj') is not None and Rf_.render(c_['obj']) == 'this._frames']
        sized = [c_ for c_ in rs_ if len(f.call_args(c_)) == 1 and Rf_.render(f.call_args(c_)[0]) in FRAMES + ('(unsigned long)arg0._header.nbFrames()',)]
        if len(rs_) == 1 and sized and lv_ is not None and g_.vertex_of.get(sized[0]['id']) is not None and g_.dominates(g_.vertex_of[sized[0]['id']], lv_):
            loops[0] = tuple(loops[0][:1]) + ({('arg0._header.nbFrames()',): 1},) + tuple(loops[0][2:])
        elif rs_:
            res.undecided(rule, inst, f.loc(loops[0][4]), 'the frame loop walks the frame store, whose size at that point the rule cannot relate to the header frame count [shape not read by the rule]', function=f.sig, expr=inst)
            return
    if pshow(loops[0][1]) not in FRAMES:
        (res.viol if recognisable(loops[0]) else res.undecided)(rule, inst, f.loc(loops[0][4]), 'the frame loop runs %s times; specified the header frame count' % pshow(loops[0][1]),
                                                               function=f.sig, expr=inst)
        return
    fl = loops[0]
    body = io_only(fl[3])
    # float-format guard: frames are decoded as REAL only when the header scale is negative
    R = Renderer(f)
    SC = ('(arg0._header._scaleFactor < 0)',)
    o = orient(body[0], SC) if len(body) == 1 and body[0][0] == 'alt' else None
    if o is not None:
        res.ok(rule, 'frame.float-format', f.loc(body[0][4]), 'frames are decoded as REAL only when the header scale is negative', function=f.sig, expr='frame.float-format')
        if any(x[0] == 'io' for x in _walk({'then': [], 'else': o[1]})):
            res.viol(rule, 'frame.int-format', f.loc(body[0][4]), 'reads in the integer-format branch', function=f.sig, expr='frame.int-format')
        body = io_only(o[0])
    else:
        # the test may be made once before the loop (refusing the integer format there)
        pre = None
        for n in f.all_nodes({'IfStmt'}):
            c = R.render(n['cond'])
            if '_scaleFactor' in c and any(f.nodes[x]['k'] == 'CXXThrowExpr' for x in f.descendants(n['then']) + (f.descendants(n['else']) if 'else' in n else [])):
                pre = n
        mentions = any(n_['k'] == 'MemberExpr' and n_.get('member') == '_scaleFactor' for n_ in f.nodes) or any('_scaleFactor' in R.render(n_['cond']) for n_ in f.all_nodes({'IfStmt'}))
        hoisted = False
        if pre is not None and 'else' not in pre:
            import indexsites as _IS
            at = []
            _IS.atoms_of_cond(f, R, pre['cond'], True, at)
            others = [(l, op, r_) for l, op, r_, _ in at if '_scaleFactor' not in l and '_scaleFactor' not in r_]
            sc = [(l, op, r_) for l, op, r_, _ in at if l.endswith('_header._scaleFactor') and op == '>=' and r_ == '0']
            g = f.events()
            lv = g.vertex_of.get(f.nodes[fl[4]].get('cond', -1))
            pv = g.vertex_of.get(f.strip(pre['cond'], 'all')) or g.vertex_of.get(pre['id'])
            if sc and all(l == 'arg0._header.nbFrames()' and op in ('>', '!=') and r_ == '0' for l, op, r_ in others) and _IS.always_exits(f, pre['then']):
                hoisted = True
        wrong_op = len(body) == 1 and body[0][0] == 'alt' and re.match(r'^\(arg0\._header\._scaleFactor (<=|>|>=|==|!=) 0\)$', body[0][1])
        if hoisted:
            res.ok(rule, 'frame.float-format', f.loc(pre['id']), 'a file whose header scale is not negative is refused before any frame is decoded (test made once, when there are frames)',
                   function=f.sig, expr='frame.float-format')
        elif wrong_op:
            res.viol(rule, 'frame.float-format', f.loc(body[0][4]), 'frames are decoded as REAL when %s; the format marks REAL storage by a negative scale only' % body[0][1], function=f.sig, expr='frame.float-format')
            body = io_only(body[0][2])
        elif pre is not None:
            res.undecided(rule, 'frame.float-format', f.loc(pre['id']), 'the float-format marker is tested outside the frame loop (%s): not a form the rule tabulates [shape not read by the rule]' % R.render(pre['cond']),
                          function=f.sig, expr='frame.float-format')
        elif len(body) == 1 and body[0][0] == 'alt' and re.match(r'^\(arg0\._header\._scaleFactor (<=|>|>=|==|!=) 0\)$', body[0][1]):
            res.viol(rule, 'frame.float-format', f.loc(body[0][4]), 'frames are decoded as REAL when %s; the format marks REAL storage by a negative scale only' % body[0][1], function=f.sig, expr='frame.float-format')
            body = io_only(body[0][2])
        elif mentions:
            res.undecided(rule, 'frame.float-format', f.loc(fl[4]), 'the float-format marker is consulted in a form the rule does not read [shape not read by the rule]', function=f.sig, expr='frame.float-format')
        else:
            res.viol(rule, 'frame.float-format', f.loc(fl[4]), 'frame decoding never consults the float-format marker (scale < 0): integer-format files would be decoded as REAL', function=f.sig, expr='frame.float-format')
    body = flatten_calls(body)
    lps = [it for it in body if it[0] == 'loop']
    if len(lps) != 2:
        res.undecided(rule, inst, f.loc(fl[4]), 'a frame must be read as a point loop followed by an analog loop; found %d loops [shape not read by the rule]' % len(lps), function=f.sig, expr=inst)
        return
    pl, al = lps
    # points: header point count x (x, y, z, residual)
    NP = ('arg0._header._nb3dPoints',)
    okp = pshow(pl[1]) in NP
    lsz = _local_list_size(f, pshow(pl[1]))
    if lsz and lsz[0] == 'exact' and lsz[1] in NP + ('arg0._header.nb3dPoints()',):
        okp = True
    reads = [it[1] for it in io_only(pl[3]) if it[0] == 'io']
    comps = []
    for d in reads:
        m = re.match(r'^(local:\w+(?:@\d+)?)\.(\w+)\(\)$', d.get('dest') or '')
        comps.append((m.group(2) if m else d.get('dest'), d['k'], width_const(d)))
    want = [('x', 'readFloat', 4), ('y', 'readFloat', 4), ('z', 'readFloat', 4), ('residual', 'readFloat', 4)]
    if okp and comps == want:
        res.ok(rule, 'frame.point', reads[0]['where'], 'points x (x, y, z, residual) as 4 REAL each', function=f.sig, expr='frame.point')
    elif lsz and lsz[0] == 'labels' and comps == want:
        res.viol(rule, 'frame.point', f.loc(pl[4]), 'the point loop runs once per entry of the list %s, which holds the %s:LABELS of the file (however it is padded afterwards): a file with more labels than points '
                 'decodes more points per frame than it stores; specified the header point count' % (pshow(pl[1]), lsz[1]), function=f.sig, expr='frame.point')
    elif not recognisable(pl) or len(reads) != len(io_only(pl[3])) or any(not isinstance(c_[0], str) or c_[0] not in ('x', 'y', 'z', 'residual') for c_ in comps):
        res.undecided(rule, 'frame.point', f.loc(pl[4]), 'point loop runs %s times reading %s: not a form the rule tabulates [shape not read by the rule]' % (pshow(pl[1]), comps), function=f.sig, expr='frame.point')
    else:
        res.viol(rule, 'frame.point', f.loc(pl[4]), 'point loop runs %s times reading %s; specified header point count x %s' % (pshow(pl[1]), comps, want), function=f.sig, expr='frame.point')
    # each component setter stores into its own slot of _data
    tg = {}
    for name in ('x', 'y', 'z', 'residual'):
        for g in prog.fns('ezc3d::DataNS::Points3dNS::Point::' + name):
            if len(g.params) == 1:
                tg[name] = setter_target(prog, g.usr)
    if tg == {'x': 'this._data[0]', 'y': 'this._data[1]', 'z': 'this._data[2]', 'residual': 'this._data[3]'}:
        res.ok(rule, 'frame.point.slots', 'src/Point.cpp', 'x,y,z,residual setters store _data[0..3]', function='', expr='frame.point.slots')
    elif None in tg.values() or len(tg) != 4:
        res.undecided(rule, 'frame.point.slots', 'src/Point.cpp', 'component setters are not plain stores (%s) [shape not read by the rule]' % tg, function='', expr='frame.point.slots')
    else:
        res.viol(rule, 'frame.point.slots', 'src/Point.cpp', 'component setters store %s' % tg, function='', expr='frame.point.slots')
    # analogs: sub-frame major
    oka = pshow(al[1]) == 'arg0._header._nbAnalogByFrame'
    inner = [it for it in io_only(al[3]) if it[0] == 'loop']
    if oka and len(inner) == 1:
        lsz = _local_list_size(f, pshow(inner[0][1]))
        if lsz and lsz[0] == 'exact' and lsz[1] in ('arg0._header.nbAnalogs()',):
            inner = [('loop', {('arg0._header.nbAnalogs()',): 1}) + tuple(inner[0][2:])]
        elif lsz and lsz[0] == 'labels':
            res.viol(rule, 'frame.analog', f.loc(inner[0][4]), 'the channel loop runs once per entry of the list %s, which holds the %s:LABELS of the file (however it is padded afterwards): a file with more labels than '
                     'channels decodes more samples per sub-frame than it stores; specified the header channel count' % (pshow(inner[0][1]), lsz[1]), function=f.sig, expr='frame.analog')
            storage_rule(prog, res, rule, f, fl, pl, al)
            return
    if oka and len(inner) == 1 and pshow(inner[0][1]) == 'arg0._header.nbAnalogs()':
        rd = [it[1] for it in io_only(inner[0][3]) if it[0] == 'io']
        if len(rd) == 1 and rd[0]['k'] == 'readFloat' and re.match(r'^local:\w+(?:@\d+)?\.data\(\)$', rd[0].get('dest') or ''):
            res.ok(rule, 'frame.analog', rd[0]['where'], 'sub-frames (outer) x channels (inner) x one REAL', function=f.sig, expr='frame.analog')
        elif len(rd) == 1 and rd[0]['k'] in codec.READERS and (rd[0]['k'] != 'readFloat'):
            res.viol(rule, 'frame.analog', rd[0]['where'], 'a channel value is read with %s, specified one REAL' % rd[0]['k'], function=f.sig, expr='frame.analog')
        else:
            res.undecided(rule, 'frame.analog', f.loc(inner[0][4]), 'channel loop does not read exactly one REAL into the channel value [shape not read by the rule]', function=f.sig, expr='frame.analog')
    elif len(inner) == 1 and recognisable(al) and pshow(al[1]) == 'arg0._header.nbAnalogs()' and pshow(inner[0][1]) == 'arg0._header._nbAnalogByFrame':
        res.viol(rule, 'frame.analog', f.loc(al[4]), 'analog samples are read channel major (channels outer, sub-frames inner); the format stores them sub-frame major', function=f.sig, expr='frame.analog')
    else:
        res.undecided(rule, 'frame.analog', f.loc(al[4]), 'analog samples must be read sub-frame major: for each of header.nbAnalogByFrame sub-frames, header.nbAnalogs channels; found %s / %s [shape not read by the rule]' %
                      (pshow(al[1]), [pshow(x[1]) for x in inner]), function=f.sig, expr='frame.analog')
    # the REAL read from the file is the value that is stored (the writers emit the stored value as is)
    allreads = [d_ for d_ in _walk({'then': io_only(pl[3]), 'else': io_only(al[3])}) if isinstance(d_, tuple) and d_[0] == 'io' and d_[1].get('k') in codec.READERS]
    tr = [(d_[1], [p_ for p_ in (d_[1].get('post') or []) if p_[0] != 'cast']) for d_ in allreads]
    tr = [(d_, p_) for d_, p_ in tr if p_]
    if tr:
        res.viol(rule, 'frame.value-as-stored', tr[0][0]['where'], 'the value read for %s is transformed before it is stored (%s) while the writer emits the stored value unchanged: a saved value does not come back' %
                 (tr[0][0].get('dest'), tr[0][1]), function=f.sig, expr='frame.value-as-stored')
    elif allreads:
        res.ok(rule, 'frame.value-as-stored', allreads[0][1]['where'], '%d reads reach their setter without arithmetic' % len(allreads), function=f.sig, expr='frame.value-as-stored')
    # storage: element i of the frame's points / (k, i) of its analogs, frame j
    storage_rule(prog, res, rule, f, fl, pl, al)


def _local_list_size(f, bound):
    """bound = 'local:X.size' for a local vector X of f: ('exact', rendering of E) when the last thing that changes the
    size of X is X.resize(E); ('labels', GROUP) when X is assigned from <GROUP>:LABELS and not resized to something else
    afterwards; None otherwise"""
    m = re.match(r'^local:(\w+)\.size$', bound or '')
    if not m:
        return None
    R = Renderer(f)
    X = 'local:' + m.group(1)
    last = None
    labels = None
    for n in f.nodes:
        if n['k'] == 'CXXMemberCallExpr' and n.get('obj') is not None and R.render(n['obj']) == X and n['callee']['name'] in ('resize', 'push_back', 'emplace_back', 'clear', 'assign', 'insert', 'erase', 'pop_back'):
            last = (n['callee']['name'], [R.render(a) for a in f.call_args(n)])
        if n['k'] == 'CXXOperatorCallExpr' and n.get('op') == '=' and n.get('args') and R.render(n['args'][0]) == X:
            r = R.render(n['args'][1])
            last = ('=', [r])
            mm = re.match(r'^arg0\._parameters\.group\("(\w+)"\)\.parameter\("LABELS"\)\.valuesAsString\(\)$', r)
            if mm:
                labels = mm.group(1)
    if last and last[0] == 'resize' and len(last[1]) >= 1:
        return ('exact', uncast_render(last[1][0]))
    if labels:
        return ('labels', labels)
    return None


def uncast_render(r):
    return re.sub(r'^\((?:unsigned |signed )?\w[\w ]*\)(?=[\w(])', '', r)


def _constant_local_array(d):
    """the write emits a local array that has an initialiser and is handed to nothing but the write: its content does not come from the object"""
    if d.get('srck') != 'array' or not str(d.get('src', '')).startswith('local:') or d.get('src_from'):
        return False
    fn_ = d['fn']
    name = d['src'][6:]
    did = None
    for n in fn_.all_nodes({'DeclStmt'}):
        for dd in n['decls']:
            if dd['name'] == name and 'init' in dd:
                did = dd['id']
    if did is None:
        return False
    uses = [x for x in fn_.nodes if x['k'] == 'DeclRefExpr' and x['decl'].get('id') == did]
    for u in uses:
        for a in fn_.ancestors(u['id']):
            an = fn_.nodes[a]
            if an['k'] in ('CXXMemberCallExpr', 'CallExpr', 'CXXOperatorCallExpr'):
                if an['id'] != d['node'] and an.get('callee', {}).get('name') != 'write':
                    return False
                break
            if an['k'] in ('BinaryOperator', 'CompoundAssignOperator') and an.get('op', '').endswith('=') and an.get('op') not in ('==', '!=', '<=', '>='):
                return False
    return True


def storage_rule(prog, res, rule, f, fl, pl, al):
    calls = {}
    for fn_, sub in _helper_family(prog, [f]):
        Rf = Renderer(fn_)
        for n in fn_.calls():
            if n['callee']['inrepo'] and fn_.call_obj(n) is not None:
                calls.setdefault(n['callee']['name'], []).append((Rf.render(fn_.call_obj(n)), [Rf.render(a) for a in fn_.call_args(n)], n['id'], fn_))
    j, i, k = fl[2], pl[2], al[2]
    ci = [it for it in io_only(al[3]) if it[0] == 'loop'][0][2] if [it for it in io_only(al[3]) if it[0] == 'loop'] else None
    why = []
    shape = []
    def appended_in_order(c):
        """the store is the append form (index defaulted to SIZE_MAX) into a local container that was created empty
        in the enclosing iteration: element number = number of appends so far = the loop variable"""
        obj, args, nid, fn_ = c
        if args[1] not in ('18446744073709551615', 'default', '(unsigned long)-1', 'SIZE_MAX'):
            return None
        m_ = re.match(r'^local:(\w+)$', obj)
        if not m_:
            return False
        for n_ in fn_.all_nodes({'DeclStmt'}):
            for d_ in n_['decls']:
                if d_['name'] == m_.group(1):
                    if 'init' not in d_:
                        return True
                    iv = fn_.nodes[fn_.strip(d_['init'], 'noop')]
                    return iv['k'] in ('CXXConstructExpr', 'CXXTemporaryObjectExpr') and not [a_ for a_ in iv.get('args', []) if fn_.nodes[fn_.strip(a_, 'all')]['k'] != 'CXXDefaultArgExpr']
        return False

    def judge(cs, what, var):
        if len(cs) != 1:
            shape.append('no single indexed store of the %s' % what)
            return
        ap = appended_in_order(cs[0])
        if ap is True:
            return
        if ap is False:
            why.append('%s is appended to a container that does not start empty in the iteration: it lands behind the elements already there, not at %s' % (what, var))
        elif cs[0][1][1] != 'local:%s' % var:
            why.append('%s is stored at index %s, the %s loop variable is %s' % (what, cs[0][1][1], what, var))
    judge([c for c in calls.get('point', []) if len(c[1]) == 2], 'point', i)
    judge([c for c in calls.get('channel', []) if len(c[1]) == 2], 'channel', ci)
    judge([c for c in calls.get('subframe', []) if len(c[1]) == 2], 'sub-frame', k)
    adds = calls.get('add', [])
    if len(adds) != 2:
        shape.append('points/analogs are not added to the frame by two add() calls')
    elif not all(a[0] == 'this._frames[local:%s]' % j for a in adds):
        why.append('points/analogs are added to %s, the frame loop variable is %s' % (sorted({a[0] for a in adds}), j))
    if why:
        res.viol(rule, 'frame.storage', f.loc(), '; '.join(why), function=f.sig, expr='frame.storage')
    elif shape:
        res.undecided(rule, 'frame.storage', f.loc(), '; '.join(shape) + ' [shape not read by the rule]', function=f.sig, expr='frame.storage')
    else:
        res.ok(rule, 'frame.storage', f.loc(), 'point i -> points[i]; channel i -> subframe[i]; subframe k -> analogs[k]; both -> frames[j]', function=f.sig, expr='frame.storage')


def io_paths(items):
    """expand alternatives: -> list of (conditions, [io dict]) for every path, or None when the
    items contain a loop / call / recursion (not a straight-line leaf writer)"""
    paths = [([], [])]
    for it in io_only(items):
        if it[0] == 'io':
            for c, l in paths:
                l.append(it[1])
        elif it[0] == 'alt':
            a, b = io_paths(it[2]), io_paths(it[3])
            if a is None or b is None:
                return None
            new = []
            for c, l in paths:
                for (ca, la), pol in [(x, '') for x in a] + [(x, '!') for x in b]:
                    new.append((c + [pol + str(it[1])] + ca, l + la))
            paths = new
        else:
            return None
    return paths


def flatten_calls(items):
    """item tree with every call replaced by the I/O it performs (who performs a write does not matter to the file)"""
    out = []
    for it in io_only(items):
        if it[0] == 'call':
            out.extend(flatten_calls(it[3]))
        elif it[0] == 'loop':
            inner = flatten_calls(it[3])
            if inner:
                out.append(('loop', it[1], it[2], inner) + tuple(it[4:]))
        elif it[0] == 'alt':
            a, b_ = flatten_calls(it[2]), flatten_calls(it[3])
            if a or b_:
                out.append(('alt', it[1], a, b_) + tuple(it[4:]))
        else:
            out.append(it)
    return out


def frame_writer_rule(prog, res, rule='frame-write'):
    """data section = for every stored frame: for every point its four floats, then for every
    sub-frame, for every channel its float.  Decided on the call-flattened I/O tree of Data::write
    (local gather buffers expanded): which function performs a write is immaterial."""
    f = prog.fn('ezc3d::DataNS::Data::write', nparams=1)
    flat = flatten_calls(codec.Extractor(prog, 'w').seq_of(f))

    def where(it):
        return it[5].loc(it[4]) if len(it) > 5 and it[5] is not None else f.loc()

    def sig(it):
        return it[5].sig if len(it) > 5 and it[5] is not None else f.sig

    def is_loop(it, rep_re):
        return it[0] == 'loop' and it[1] is not None and re.match(rep_re, pshow(it[1])) is not None
    RF, RP, RS, RC = r'^this\._frames\.size$', r'.*_points\._points\.size$', r'.*_analogs\._subframe\.size$', r'.*_channels\.size$'
    if not (len(flat) == 1 and is_loop(flat[0], RF)):
        res.undecided(rule, 'frame.layout', f.loc(), 'the data writer is not one loop over the stored frames (%s): layout cannot be tabulated' % [describe(x) for x in flat][:3], function=f.sig, expr='frame.layout')
        return
    body = flat[0][3]
    if len(body) == 2 and is_loop(body[0], RS) and is_loop(body[1], RP):
        res.viol(rule, 'frame.order', where(body[0]), 'a frame must be written as its points followed by its analogs (found analogs first)', function=sig(body[0]), expr='frame.order')
        return
    if not (len(body) == 2 and is_loop(body[0], RP) and is_loop(body[1], RS)):
        res.undecided(rule, 'frame.order', where(flat[0]), 'a frame is not written as (loop over its points)(loop over its sub-frames): layout cannot be tabulated (%s)' % [describe(x) for x in body][:3],
                      function=sig(flat[0]), expr='frame.order')
        return
    res.ok(rule, 'frame.order', where(body[0]), 'points, then analogs', function=sig(body[0]), expr='frame.order')
    # points
    pl = body[0]
    pp = io_paths(pl[3])
    want = [('_data[%d]' % c, '4', 'f', 32) for c in range(4)]
    if pp is None:
        res.undecided(rule, 'frame.point', where(pl), 'a point is not written by a straight-line sequence of writes (%s)' % [describe(x) for x in pl[3]][:3], function=sig(pl), expr='frame.point')
    else:
        bad = None
        for conds, ws in pp:
            got = [(re.sub(r'^.*\._data', '_data', d.get('src') or ''), pshow(d.get('width')), d.get('src_tc'), d.get('src_tw')) for d in ws]
            if got != want:
                bad = (conds, got, ws)
                break
        fn_ = pp[0][1][0]['fn'] if pp and pp[0][1] else f
        if bad is None:
            res.ok(rule, 'frame.point', pp[0][1][0]['where'], 'x, y, z, residual = _data[0..3], 4 bytes each from 32-bit floats (on each of %d path(s))' % len(pp), function=fn_.sig, expr='frame.point')
        else:
            res.viol(rule, 'frame.point', (bad[2][0]['where'] if bad[2] else where(pl)), 'a point is written as %s%s; specified %s' % (bad[1], (' when ' + ' && '.join(bad[0])) if bad[0] else '', want),
                     function=fn_.sig, expr='frame.point', sure=all(d_.get('width') is not None and (d_.get('srck') == 'object' or _constant_local_array(d_)) for d_ in bad[2]))
    # analogs
    sl = body[1]
    inner = sl[3]
    if not (len(inner) == 1 and is_loop(inner[0], RC)):
        if len(inner) == 1 and inner[0][0] == 'loop' and inner[0][1] is not None and len(inner[0][3]) == 1 and is_loop(inner[0][3][0], RS):
            res.viol(rule, 'frame.analog', where(inner[0]), 'analogs are written channel major; the format stores them sub-frame major (sub-frames x channels x one value)', function=sig(inner[0]), expr='frame.analog')
        else:
            res.undecided(rule, 'frame.analog', where(sl), 'a sub-frame is not written as one loop over its channels (%s): layout cannot be tabulated' % [describe(x) for x in inner][:3], function=sig(sl), expr='frame.analog')
        return
    cl = inner[0]
    pp = io_paths(cl[3])
    if pp is None:
        res.undecided(rule, 'frame.analog', where(cl), 'a channel is not written by a straight-line sequence of writes', function=sig(cl), expr='frame.analog')
        return
    bads = [x for x in pp if not (len(x[1]) == 1 and (x[1][0].get('src') or '').endswith('._data') and pshow(x[1][0].get('width')) == '4' and (x[1][0].get('src_tc'), x[1][0].get('src_tw')) == ('f', 32))]
    fn_ = pp[0][1][0]['fn'] if pp and pp[0][1] else f
    if not bads:
        res.ok(rule, 'frame.analog', pp[0][1][0]['where'], 'sub-frames (outer) x channels (inner) x one 4-byte value from a 32-bit float', function=fn_.sig, expr='frame.analog')
    else:
        ws = bads[0][1]
        res.viol(rule, 'frame.analog', (ws[0]['where'] if ws else where(cl)), 'a channel is written as %s%s' % ([(d.get('src'), pshow(d.get('width')), d.get('src_tc'), d.get('src_tw')) for d in ws],
                 (' when ' + ' && '.join(bads[0][0])) if bads[0][0] else ''), function=fn_.sig, expr='frame.analog')


# ---------------------------------------------------------------------------------------------
# A14 copy completeness

def copy_completeness_rule(prog, res, rule='copy-complete'):
    n = 0
    for f in prog.repo_funcs():
        if f.kind == 'ctor' and f.rec.get('copy') and not f.implicit and f.rec.get('defaulted'):
            n += 1
            res.ok(rule, '%s (defaulted)' % f.cls.split('::')[-1], f.loc(), '`= default`: every member is copied', function=f.sig, expr='defaulted', nontrivial=False)
            continue
        if f.kind != 'ctor' or not f.rec.get('copy') or f.implicit or f.rec.get('defaulted'):
            continue      # an implicit or `= default` copy constructor copies member by member
        cls = prog.classes.get(f.cls)
        if not cls:
            continue
        n += 1
        R = Renderer(f)
        got = {}   # target render -> source render
        for init in f.rec.get('inits', []):
            if init.get('field') and init['written']:
                got['this.' + init['field']] = R.render(init['expr'])
        for m in f.nodes:
            if m['k'] == 'BinaryOperator' and m['op'] == '=':
                got[R.render(m['ch'][0])] = R.render(m['ch'][1])
            elif m['k'] == 'CXXOperatorCallExpr' and m.get('op') == '=':
                got[R.render(m['args'][0])] = R.render(m['args'][1])
            elif m['k'] == 'CXXMemberCallExpr' and m['callee'].get('inrepo') and len(m.get('args', [])) == 1 and \
                    f.nodes[f.strip(m['obj'], 'all')]['k'] == 'CXXThisExpr':
                tg = setter_target(prog, m['callee']['usr'])
                if tg:
                    got[tg] = R.render(m['args'][0])
        for fl in cls['fields']:
            base = 'this.' + fl['name']
            src = 'arg0.' + fl['name']
            short = '%s::%s' % (f.cls.split('::')[-1], fl['name'])
            if got.get(base) == src:
                res.ok(rule, short, f.loc(), 'copied from the same member of the source', function=f.sig, expr=fl['name'])
                continue
            K = vector_size_invariant(prog, f.cls, fl['name'])
            g0 = (got.get(base) or '').replace(' ', '')
            if K and (re.match(r'^std::vector<[^{]*\{%s\.begin\(\),(?:%s\.begin\(\)\.operator\+\(%d\)|\(%s\.begin\(\)\+%d\)|%s\.end\(\))(?:,default)?\}$' %
                               (re.escape(src), re.escape(src), K, re.escape(src), K, re.escape(src)), g0)):
                res.ok(rule, short, f.loc(), 'constructed from the source\'s %d components [begin, begin + %d)' % (K, K), function=f.sig, expr=fl['name'])
                continue
            mb = re.match(r'^std::vector<[^{]*\{+([^{}]*)\}+(?:,default)?\}$', g0) if K else None
            if mb:
                # a braced list of the source's components, in order:  _data({p.x(), p.y(), p.z(), p.residual()})
                els = [re.sub(r'^\((float|double|int|unsignedlong)\)', '', e_) for e_ in mb.group(1).split(',')]
                if els == ['%s[%d]' % (src, k) for k in range(K)]:
                    res.ok(rule, short, f.loc(), 'constructed from the braced list of the source\'s %d components, in order' % K, function=f.sig, expr=fl['name'])
                    continue
                if len(els) == K and all(re.match(r'^%s\[\d+\]$' % re.escape(src), e_) for e_ in els):
                    res.viol(rule, short, f.loc(), 'the braced list takes the source\'s components in the order %s' % els, function=f.sig, expr=fl['name'], sure=True)
                    continue
            if K:
                # std::copy_n(src.begin(), K, dst.begin()) / std::copy(src.begin(), src.end() | src.begin() + K, dst.begin())
                whole = False
                for m in f.calls():
                    q_ = m.get('callee', {}).get('qname')
                    a_ = [R.render(x).replace(' ', '') for x in f.call_args(m)] if q_ in ('std::copy_n', 'std::copy') else []
                    if q_ == 'std::copy_n' and len(a_) == 3 and a_[0] == src + '.begin()' and re.sub(r'^\([^)]*\)', '', a_[1]) == str(K) and a_[2] == base + '.begin()':
                        whole = True
                    if q_ == 'std::copy' and len(a_) == 3 and a_[0] == src + '.begin()' and a_[2] == base + '.begin()' and \
                            a_[1] in (src + '.end()', '%s.begin().operator+(%d)' % (src, K), '(%s.begin()+%d)' % (src, K)):
                        whole = True
                if whole:
                    res.ok(rule, short, f.loc(), 'all %d components copied by one std::copy over the source range' % K, function=f.sig, expr=fl['name'])
                    continue
                bad = None
                partial = False
                for k in range(K):
                    if got.get('%s[%d]' % (base, k)) is not None:
                        partial = True
                for k in range(K):
                    s = got.get('%s[%d]' % (base, k))
                    s2 = re.sub(r'^\((float|double|int|unsigned long)\)', '', s) if s else s
                    if s2 != '%s[%d]' % (src, k):
                        bad = 'component %s[%d] receives %s instead of the source\'s %s[%d]' % (fl['name'], k, s, fl['name'], k)
                        break
                if bad and not partial and any(base in R.render(x) for m in f.calls() for x in f.call_args(m)):
                    res.undecided(rule, short, f.loc(), 'the components of %s are filled through a call the rule does not tabulate [shape not read by the rule]' % fl['name'], function=f.sig, expr=fl['name'])
                elif bad:
                    res.viol(rule, short, f.loc(), bad, function=f.sig, expr=fl['name'])
                else:
                    res.ok(rule, short, f.loc(), 'all %d components copied slot by slot' % K, function=f.sig, expr=fl['name'])
                continue
            res.viol(rule, short, f.loc(), 'member %s is not copied from the source object (receives %s)' % (fl['name'], got.get(base)), function=f.sig, expr=fl['name'])
    res.minimum('user-provided copy constructors', n, 2)


# ---------------------------------------------------------------------------------------------
# loading order, label binding

def load_order_rule(prog, res, rule='load-order'):
    f0 = prog.fn('ezc3d::c3d::c3d', nparams=1)
    # the constructor itself, or the one member of c3d it hands the reading to
    cands = [f0] + [prog.funcs[c['callee']['usr']] for c in f0.calls() if c['callee'].get('usr') in prog.funcs and prog.funcs[c['callee']['usr']].cls == 'ezc3d::c3d' and
                    prog.funcs[c['callee']['usr']].body is not None and c['k'] == 'CXXMemberCallExpr']
    for f in cands:
        g = f.events()
        pv = uv = dv = hv = None
        for n in f.nodes:
            built = None
            if n['k'] == 'CXXConstructExpr' and n['callee']['nparams'] == 1:
                built = n['callee'].get('class')
            elif n['k'] == 'CallExpr' and 'callee' in n:
                mk = prog.makes(f, n)
                if mk and mk['nparams'] == 1:
                    built = mk['class']
            if built == 'ezc3d::ParametersNS::Parameters':
                pv = g.vertex_of.get(n['id'])
            if built == 'ezc3d::DataNS::Data':
                dv = g.vertex_of.get(n['id'])
            if built == 'ezc3d::Header':
                hv = g.vertex_of.get(n['id'])
            if n['k'] == 'CXXMemberCallExpr' and n['callee']['qname'] == 'ezc3d::c3d::updateHeader':
                uv = g.vertex_of.get(n['id'])
        if None not in (pv, dv, hv):
            break
    if None in (pv, dv, hv):
        raise AnalysisBroken('loading constructor no longer builds header/parameters/data from the file')
    ok = uv is not None and g.dominates(hv, pv) and g.dominates(pv, uv) and g.dominates(uv, dv)
    if ok:
        res.ok(rule, 'header -> parameters -> updateHeader -> data', f.loc(), 'the header is reconciled with the parameters before the data section is sized from it', function=f.sig, expr='order')
    else:
        res.viol(rule, 'header -> parameters -> updateHeader -> data', f.loc(),
                 'the loading constructor must read header, then parameters, then call updateHeader(), then read the data (the data reader sizes its loops from the header)',
                 function=f.sig, expr='order')


def stream_reuse_rule(prog, res, rule, fns):
    """a string stream that builds a name per element: declared inside the loop (a fresh one each time) or emptied with
    str("") before reuse.  One stream declared outside the loop, written with << and read with str() inside it, accumulates the
    names of all earlier elements - clear() resets the error flags, not the text."""
    LOOPS = {'ForStmt', 'WhileStmt', 'DoStmt', 'CXXForRangeStmt'}
    for f in fns:
        R = Renderer(f)
        loops = [n for n in f.all_nodes(LOOPS)]
        if not loops:
            continue
        for dn in f.all_nodes({'DeclStmt'}):
            for d in dn['decls']:
                if not re.search(r'basic_(o)?stringstream', str(d.get('type', ''))) or d.get('dk') != 'local':
                    continue
                inside = [lp for lp in loops if dn['id'] in f.descendants(lp['id'])]
                uses = [n for n in f.nodes if n['k'] in ('CXXOperatorCallExpr', 'CXXMemberCallExpr') and 'callee' in n]
                ins, reads, resets = [], [], []
                for n in uses:
                    o = f.call_obj(n)
                    root = f.nodes[f.strip(o, 'all')] if o is not None else None
                    # chained insertions: (s << a) << b  - follow the left operand down to the declaration
                    hops = 0
                    while root is not None and root['k'] == 'CXXOperatorCallExpr' and root.get('op') == '<<' and root.get('args') and hops < 12:
                        root = f.nodes[f.strip(root['args'][0], 'all')]
                        hops += 1
                    if root is None or root['k'] != 'DeclRefExpr' or root['decl'].get('id') != d['id']:
                        continue
                    if n['k'] == 'CXXOperatorCallExpr' and n.get('op') == '<<':
                        ins.append(n)
                    elif n['callee']['name'] == 'str' and not f.call_args(n):
                        reads.append(n)
                    elif n['callee']['name'] == 'str' and f.call_args(n):
                        resets.append(n)
                inst = 'name stream `%s` in %s' % (d['name'], f.name)
                outer = [lp for lp in loops if lp not in inside and any(n['id'] in f.descendants(lp['id']) for n in ins) and any(n['id'] in f.descendants(lp['id']) for n in reads)]
                if not outer:
                    if ins and reads:
                        res.ok(rule, inst, f.loc(dn['id']), 'a fresh stream per element (declared inside the loop that fills and reads it)', function=f.sig, expr='stream:' + d['name'], nontrivial=False)
                    continue
                lp = outer[0]
                if any(n['id'] in f.descendants(lp['id']) for n in resets):
                    res.ok(rule, inst, f.loc(dn['id']), 'reused across iterations and emptied with str(...) inside the loop', function=f.sig, expr='stream:' + d['name'])
                else:
                    res.viol(rule, inst, f.loc(ins[0]['id']), 'the stream is declared outside the loop at %s, written with << and read with str() inside it, and never emptied with str(\"\"): the text of every earlier '
                             'element stays in front of the next one (clear() only resets the error flags)' % f.loc(dn['id']), function=f.sig, expr='stream:' + d['name'], sure=True)


def label_binding_rule(prog, res, rule='label-binding'):
    f = prog.fn('ezc3d::DataNS::Data::Data', nparams=1)
    R = Renderer(f)
    stream_reuse_rule(prog, res, rule, [fn_ for fn_, _s in _helper_family(prog, [f])])
    found = {}
    names_kind = {}
    wrong = []
    for fn_, sub in _helper_family(prog, [f]):
        Rf = Renderer(fn_)
        for n in fn_.all_nodes({'IfStmt'}):
            c = Rf.render(n['cond'])
            mle = re.match(r'^\(local:(\w+) <= (local:\w+|arg\d+)\.size\)$', c)
            if mle and 'else' in n and any(fn_.nodes[x]['k'] == 'CXXMemberCallExpr' and fn_.nodes[x]['callee']['name'] == 'name' for x in fn_.descendants(n['then'])):
                wrong.append('%s: element %s takes its name from the list also when %s == size (test is <=)' % (fn_.loc(n['id']), mle.group(1), mle.group(1)))
                continue
            m = re.match(r'^\(local:(\w+) < (local:\w+|arg\d+)\.size\)$', c)
            if not m or 'else' not in n:
                continue
            i, names = m.group(1), m.group(2)
            th = [fn_.nodes[x] for x in fn_.descendants(n['then']) if fn_.nodes[x]['k'] == 'CXXMemberCallExpr' and fn_.nodes[x]['callee']['name'] == 'name']
            el = [fn_.nodes[x] for x in fn_.descendants(n['else']) if fn_.nodes[x]['k'] == 'CXXMemberCallExpr' and fn_.nodes[x]['callee']['name'] == 'name']
            if len(th) == 1 and len(el) == 1:
                outer = sub.get(names, names) if names.startswith('arg') else names
                if not outer.startswith('local:'):
                    continue
                if Rf.render(th[0]['args'][0]) == '%s[local:%s]' % (names, i):
                    found[outer[6:]] = fn_.loc(n['id'])
                    cls_ = str(th[0]['callee'].get('class', ''))
                    names_kind[outer[6:]] = 'POINT' if cls_.endswith('::Point') else ('ANALOG' if cls_.endswith('::Channel') else None)
                else:
                    wrong.append('%s: element %s is named %s' % (fn_.loc(n['id']), i, Rf.render(th[0]['args'][0])))
    # the same logic behind a helper:  x.name(H(names, i, ...))  with  H: if (idx < labels.size()) return labels[idx]; <generated>
    for n in f.calls():
        if n['callee']['name'] != 'name' or not n.get('args'):
            continue
        a = f.nodes[f.strip(n['args'][0], 'all')]
        if a['k'] != 'CallExpr' or a['callee']['usr'] not in prog.funcs or len(a.get('args', [])) < 2:
            continue
        h = prog.funcs[a['callee']['usr']]
        Rh = Renderer(h)
        okh = False
        for i_ in h.all_nodes({'IfStmt'}):
            if Rh.render(i_['cond']) == '(arg1 < arg0.size)':
                rets = [h.nodes[x] for x in h.descendants(i_['then']) if h.nodes[x]['k'] == 'ReturnStmt']
                if len(rets) == 1 and rets[0]['ch'] and Rh.render(rets[0]['ch'][0]) == 'arg0[arg1]':
                    # every other return is reached only when the guard is false
                    others = [r for r in h.all_nodes({'ReturnStmt'}) if r['id'] != rets[0]['id']]
                    if others and all(r['id'] not in h.descendants(i_['then']) for r in others):
                        okh = True
        names_r, idx_r = R.render(a['args'][0]), R.render(a['args'][1])
        m = re.match(r'^local:(\w+)$', names_r)
        from loops import enclosing_fors, normal_for
        loopvars = ['local:' + normal_for(f, x)['name'] for x in enclosing_fors(f, n['id']) if normal_for(f, x)]
        if okh and m and idx_r in loopvars[:1]:
            found[m.group(1)] = f.loc(n['id'])
    # the name lists come from POINT:LABELS / ANALOG:LABELS
    src = {}
    for n in f.nodes:
        if n['k'] == 'CXXOperatorCallExpr' and n.get('op') == '=':
            l, r = R.render(n['args'][0]), R.render(n['args'][1])
            m = re.match(r'^arg0\._parameters\.group\("(\w+)"\)\.parameter\("LABELS"\)\.valuesAsString\(\)$', r)
            if m and l.startswith('local:'):
                src[l[6:]] = m.group(1)
                # a guard around the fetch must let every positive count through
                for a_ in f.ancestors(n['id']):
                    an = f.nodes[a_]
                    if an['k'] != 'IfStmt' or n['id'] not in ([an.get('then')] + list(f.descendants(an['then']) if an.get('then') is not None else [])):
                        continue
                    mc = re.match(r'^\((arg0\._header\.[\w\.\(\) /]+?) (>|>=|!=|==) (\d+)\)$', R.render(an['cond']))
                    if not mc:
                        continue
                    op_, k_ = mc.group(2), int(mc.group(3))
                    own_count = {'POINT': ('nb3dPoints', '_nb3dPoints'), 'ANALOG': ('nbAnalogs', '_nbAnalogsMeasurement', '_nbAnalogByFrame')}
                    other = [g_ for g_, cs_ in own_count.items() if g_ != m.group(1) and any(c_ in mc.group(1) for c_ in cs_)]
                    if other and not any(c_ in mc.group(1) for c_ in own_count.get(m.group(1), ())):
                        wrong.append('%s: %s:LABELS is fetched only when %s %s %d, a count of the %s section: a file with %s but no %s keeps generated names' %
                                     (f.loc(an['id']), m.group(1), mc.group(1), op_, k_, other[0], 'points' if m.group(1) == 'POINT' else 'channels', 'channels' if m.group(1) == 'POINT' else 'points'))
                    lets_one = {'>': 1 > k_, '>=': 1 >= k_, '!=': 1 != k_, '==': False}[op_]
                    if not lets_one:
                        wrong.append('%s: %s:LABELS is fetched only when %s %s %d: a file with exactly one point/channel keeps generated names' % (f.loc(an['id']), m.group(1), mc.group(1), op_, k_))
    for k_, kind_ in names_kind.items():
        if kind_ and src.get(k_) and src[k_] != kind_:
            wrong.append('%s: the list `%s` that names the %s comes from %s:LABELS' % (found[k_], k_, 'points' if kind_ == 'POINT' else 'channels', src[k_]))
    want = {'POINT', 'ANALOG'}
    have = {src.get(k) for k in found}
    if want <= have and not wrong:
        res.ok(rule, 'positional label binding', ', '.join(sorted(found.values())), 'element i is named LABELS[i] when i < LABELS.size, else a generated name (points and channels)', function=f.sig, expr='labels')
    elif wrong:
        res.viol(rule, 'positional label binding', f.loc(), 'point/channel i must be named <GROUP>:LABELS[i] iff i < LABELS.size; %s' % '; '.join(wrong), function=f.sig, expr='labels')
    elif not src and any(c_['callee'].get('inrepo') and c_['callee'].get('usr') in prog.funcs and (prog.funcs[c_['callee']['usr']].rec.get('internal') or '(anonymous namespace)' in c_['callee']['qname']) and
                         any(re.search(r'"(POINT|ANALOG)"|_parameters', R.render(a_)) for a_ in f.call_args(c_)) for c_ in f.calls()):
        res.undecided(rule, 'positional label binding', f.loc(), 'the label lists come out of a file-local helper that is handed the parameters / a group name: where they are fetched is not read by the rule '
                      '[shape not read by the rule]', function=f.sig, expr='labels')
    elif not src:
        res.viol(rule, 'positional label binding', f.loc(), 'point/channel i must be named <GROUP>:LABELS[i] iff i < LABELS.size: the data reader never fetches the LABELS lists',
                 function=f.sig, expr='labels')
    else:
        res.undecided(rule, 'positional label binding', f.loc(), 'the LABELS lists are used to name points/channels in a form the rule does not read (bindings found for %s) [shape not read by the rule]' %
                      sorted(x for x in have if x), function=f.sig, expr='labels')


# ---------------------------------------------------------------------------------------------
# header synchronisation coverage (C03), re-emission completeness (C04)

def header_sync_rule(prog, res, rule='header-sync'):
    spec = load_spec()
    E = FX.get(prog)
    uh = prog.fn('ezc3d::c3d::updateHeader', nparams=0)
    written = {p[1] for r, p, k in E.of(uh) if r == 'this' and len(p) == 2 and p[0] == '_header' and k == 'assign'}
    n = 0
    for fld in spec['header']:
        if 'derived' not in fld or fld['name'] == 'scale':
            continue
        n += 1
        inst = 'header.word%d.%s' % (fld['word'], fld['name'])
        if fld['member'] in written:
            res.ok(rule, inst, uh.loc(), '%s is kept equal to %s by updateHeader' % (fld['member'], fld['derived']), function=uh.sig, expr=fld['member'])
        else:
            res.viol(rule, inst, uh.loc(), 'header field %s (%s) is derived from other sections but nothing synchronises it: it keeps its constructor default / loaded value' % (fld['member'], fld['derived']),
                     function=uh.sig, expr=fld['member'], facts={'cite': fld['cite']})
    res.minimum('derived header fields', n, 7)


def reemission_rule(prog, res, rule='re-emission'):
    """every member a reader assigns is emitted by the matching writer from the same member, or is
    canonicalised on save (listed in the layout table)"""
    spec = load_spec()
    E = FX.get(prog)
    pairs = [
        ('ezc3d::Header', prog.fn('ezc3d::Header::read', nparams=1), prog.fn('ezc3d::Header::write', nparams=1),
         {'_nbOfZerosBeforeHeader': 'leading zeros are dropped on save', '_parametersAddress': 'written as block 2', '_checksum': 'written as 0x50'}),
        ('ezc3d::ParametersNS::GroupNS::Group', prog.fn('ezc3d::ParametersNS::GroupNS::Group::read', nparams=2), prog.fn('ezc3d::ParametersNS::GroupNS::Group::write', nparams=3), {}),
        ('ezc3d::ParametersNS::GroupNS::Parameter', prog.fn('ezc3d::ParametersNS::GroupNS::Parameter::read', nparams=2), prog.fn('ezc3d::ParametersNS::GroupNS::Parameter::write', nparams=3), {}),
        ('ezc3d::ParametersNS::Parameters', prog.fn('ezc3d::ParametersNS::Parameters::Parameters', nparams=1), prog.fn('ezc3d::ParametersNS::Parameters::write', nparams=1),
         {'_checksum': 'written as 0x50', '_nbParamBlock': 'recomputed (back-patched slot)', '_processorType': 'written as 84'}),
    ]
    ex = codec.Extractor(prog, 'w')
    total = 0
    for cls, rd, wr, canon in pairs:
        assigned = {p[0] for r, p, k in E.of(rd) if r == 'this' and p and not p[0].startswith('[')}
        if rd.kind == 'ctor':
            assigned |= {i['field'] for i in rd.rec.get('inits', []) if i.get('field')}
        # members the writer's emitted values depend on: sources, widths, and the conditions
        # (lock flag is emitted as the sign of the name length)
        deps = set()

        def collect(items):
            for it in items:
                if it[0] == 'io':
                    d = it[1]
                    txt = ' '.join([d.get('src', '') or '', d.get('src_from', '') or ''] + [pshow(v) for v in (d.get('src_vals') or [])] +
                                   [pshow(d['width'])] if d.get('width') is not None else [d.get('src', '') or ''])
                    for v, c in (d.get('src_cases') or []):
                        txt += ' ' + ' '.join(c.keys())
                    deps.update(re.findall(r'\bthis\.(\w+)', txt))
                elif it[0] == 'loop':
                    if it[1] is not None:
                        deps.update(re.findall(r'\bthis\.(\w+)', pshow(it[1])))
                    collect(it[3])
                elif it[0] == 'alt':
                    collect(it[2])
                    collect(it[3])
                elif it[0] == 'call' and (it[1].cls == cls or it[1].cls is None):
                    collect(it[3])
        collect(ex.seq_of(wr))
        if cls.endswith('Parameter'):
            g = prog.fn('ezc3d::ParametersNS::GroupNS::Parameter::writeImbricatedParameter', nparams=4)
            collect(ex.seq_of(g))
        if cls.endswith('Group') or cls.endswith('Parameters'):
            # child records are emitted by iterating the container
            R = Renderer(wr)
            for n in wr.all_nodes({'ForStmt'}):
                from loops import normal_for
                lf = normal_for(wr, n['id'])
                if lf:
                    deps.update(re.findall(r'\bthis\.(\w+)', R.render(lf['bound'])))
        for m in sorted(assigned):
            total += 1
            inst = '%s::%s' % (cls.split('::')[-1], m)
            if m in deps:
                res.ok(rule, inst, wr.loc(), 'loaded by %s, emitted by %s' % (rd.name, wr.name), function=wr.sig, expr=m)
            elif m in canon:
                res.ok(rule, inst, wr.loc(), 'canonicalised on save: ' + canon[m], function=wr.sig, expr=m, nontrivial=False)
            else:
                # the writer may emit it through a local buffer it fills first (memcpy / copy into an array that is then written)
                opaque = []

                def find_opaque(items):
                    for it in items:
                        if it[0] == 'io' and it[1].get('k') == 'write' and it[1].get('srck') in ('array', 'other'):
                            opaque.append(it[1])
                        elif it[0] == 'loop':
                            find_opaque(it[3])
                        elif it[0] == 'alt':
                            find_opaque(it[2])
                            find_opaque(it[3])
                        elif it[0] == 'call':
                            find_opaque(it[3])
                find_opaque(ex.seq_of(wr))
                Rw = Renderer(wr)
                used = any(n_['k'] == 'MemberExpr' and n_.get('member') == m and n_.get('fclass') == cls for n_ in wr.nodes)
                if not used:
                    # ... or through its getter (rendered as the member it returns)
                    for n_ in wr.nodes:
                        if n_['k'] in ('CXXMemberCallExpr',) and n_.get('callee', {}).get('class') == cls and not f.call_args(n_) if False else False:
                            pass
                    try:
                        used = any(('this.%s' % m) in Rw.render(n_['id']) for n_ in wr.nodes if n_['k'] == 'CXXMemberCallExpr' and n_.get('callee', {}).get('class') == cls and n_['callee'].get('const'))
                    except Exception:
                        used = False
                if opaque and used:
                    res.undecided(rule, inst, wr.loc(), 'member %s is read by the writer and the writer emits a local buffer the extractor does not tabulate (%s): cannot tell whether it is emitted' %
                                  (m, opaque[0].get('src')), function=wr.sig, expr=m)
                elif used:
                    res.undecided(rule, inst, wr.loc(), 'member %s is read by the writer, but none of the values the extractor tabulates depends on it: it reaches the file (if it does) through a form the rule does not '
                                  'read [shape not read by the rule]' % m, function=wr.sig, expr=m)
                else:
                    res.viol(rule, inst, wr.loc(), 'member %s is filled by the reader but the writer never emits it: it is lost on load -> save' % m, function=wr.sig, expr=m)
    res.minimum('reader-assigned members', total, 30)


# ---------------------------------------------------------------------------------------------
# C17: truncating writes ; C12: float path, zero extension

def fits_by_writers(prog, cls, field, nbytes, signed=False):
    """every value ever stored to cls::field is a constant that fits nbytes or the result of an
    unsigned read of at most nbytes bytes -> (True, '') else (False, why)"""
    lim = 1 << (8 * nbytes)
    for f, nid, rhs in _c18.field_writes(prog, cls, field):
        if rhs is None:
            return False, 'modified in place at %s' % f.loc(nid)
        lr = lambda_result(f, rhs)
        n = f.nodes[f.strip(lr if lr is not None else rhs, 'all')]
        if 'cv' in n:
            v = int(n['cv'])
            if 0 <= v < lim:
                continue
            return False, 'constant %d stored at %s' % (v, f.loc(nid))
        if n['k'] == 'CXXMemberCallExpr' and n['callee']['name'] == 'readUint':
            w = f.nodes[f.strip(n['args'][0], 'all')].get('cv')
            if w is not None and int(w) <= nbytes:
                continue
            return False, 'read of %s bytes stored at %s' % (w, f.loc(nid))
        # a container member constructed with a count only: its elements are value-initialised (zero)
        c0 = f.nodes[f.strip(rhs, 'noop')]
        while c0['k'] in ('ExprWithCleanups', 'MaterializeTemporaryExpr', 'CXXBindTemporaryExpr') and c0['ch']:
            c0 = f.nodes[f.strip(c0['ch'][0], 'noop')]
        if c0['k'] == 'CXXConstructExpr' and c0['callee'].get('class', '').startswith('std::vector'):
            real = [a for a in c0.get('args', []) if f.nodes[f.strip(a, 'all')]['k'] != 'CXXDefaultArgExpr']
            if len(real) == 0 or (len(real) == 1 and f.nodes[f.strip(real[0], 'noop')].get('tc') in ('u', 's')):
                continue
            if len(real) == 2 and f.nodes[f.strip(real[0], 'noop')].get('tc') in ('u', 's') and 'cv' in f.nodes[f.strip(real[1], 'all')] and 0 <= int(f.nodes[f.strip(real[1], 'all')]['cv']) < lim:
                continue
        return False, 'set from %s at %s' % (Renderer(f).render(rhs)[:60], f.loc(nid))
    return True, ''


def has_range_guard(f, node, atom_render):
    """a dominating comparison of the same access path against a limit whose failing branch throws"""
    R = Renderer(f)
    g = f.events()
    uv = g.vertex_of.get(node)
    for n in f.all_nodes({'IfStmt'}):
        c = f.nodes[f.strip(n['cond'], 'all')]
        txt = R.render(n['cond'])
        if atom_render in txt and any(op in txt for op in (' > ', ' >= ', ' < ', ' <= ')):
            ths = [x for x in f.descendants(n['then']) if f.nodes[x]['k'] == 'CXXThrowExpr']
            cv = g.vertex_of.get(c['id'])
            if ths and cv is not None and uv is not None and g.dominates(cv, uv):
                return True
    return False


def truncating_write_rule(prog, res, rule='truncating-write'):
    spec = load_spec()
    reserved = {f['member'] for f in spec['header'] if f['type'] == 'r'}
    ex = codec.Extractor(prog, 'w')
    fns = [prog.fn('ezc3d::Header::write', nparams=1), prog.fn('ezc3d::ParametersNS::Parameters::write', nparams=1),
           prog.fn('ezc3d::ParametersNS::GroupNS::Group::write', nparams=3), prog.fn('ezc3d::ParametersNS::GroupNS::Parameter::write', nparams=3),
           prog.fn('ezc3d::ParametersNS::GroupNS::Parameter::writeImbricatedParameter', nparams=4)]
    # plus every other writer in the save call graph (points / channels)
    w = prog.fn('ezc3d::c3d::write', nparams=1)
    for u in sorted(prog.reachable_from([w])):
        g = prog.funcs[u]
        if g.name == 'write' and g not in fns and g is not w and not g.implicit:
            fns.append(g)
    n = 0

    def walk(items):
        for it in items:
            if it[0] == 'io':
                yield it[1]
            elif it[0] == 'loop':
                yield from walk(it[3])
            elif it[0] == 'alt':
                yield from walk(it[2])
                yield from walk(it[3])
    for f in fns:
        for d in walk(ex.seq_of(f)):
            if d.get('k') != 'write' or d.get('srck') != 'object':
                continue
            wp = d.get('width')
            wc = wp.get((), 0) if wp is not None and set(wp.keys()) <= {()} else None
            size = (d.get('src_tw') or 0) // 8
            if wc is None:
                gc = None
                m = re.search(r'_data_type', pshow(wp))
                if m:
                    # width is the element type under the dispatch guard: 1 (BYTE) / 2 (INT) / 4 (FLOAT)
                    import p_c14
                    gc = p_c14.guard_constant(f, f.call_args(f.nodes[d['node']])[1], d['node'])
                wc = gc
            if wc is None or wc >= size:
                continue
            n += 1
            src = d['src']
            inst = '%s <- %s' % (wc, src)
            vals = d.get('src_vals')
            # constants that fit are not what a finding is about: the site is identified by its non-constant values
            def _fits(v_):
                return set(v_.keys()) <= {()} and -(1 << (8 * wc - 1)) <= v_.get((), 0) < (1 << (8 * wc))
            kv = [v for v in (vals or []) if not _fits(v)] or (vals or [])
            key = src if not (vals and d.get('src_local')) else 'value:%s' % ('|'.join(sorted(pshow(v) for v in kv)))
            key = '%d<-%s' % (wc, re.sub(r'local:\w+', '$v', key))
            # (1) constants
            if vals and all(set(v.keys()) <= {()} and -(1 << (8 * wc - 1)) <= v.get((), 0) < (1 << (8 * wc)) for v in vals):
                res.ok(rule, inst, d['where'], 'constant %s fits %d byte(s)' % ('/'.join(pshow(v) for v in vals), wc), function=f.sig, expr=key, nontrivial=False)
                continue
            # (2) bool / enum
            if d.get('src_tc') in ('b', 'e'):
                res.ok(rule, inst, d['where'], 'enumeration value', function=f.sig, expr=key, nontrivial=False)
                continue
            # (3) member whose writers are all in range / reserved words
            m = re.match(r'^this\.(\w+)(\[.*\])?$', src)
            if m and f.cls:
                if m.group(1) in reserved:
                    res.ok(rule, inst, d['where'], 'reserved word (content not interpreted)', function=f.sig, expr=key, nontrivial=False)
                    continue
                okw, why = fits_by_writers(prog, f.cls, m.group(1), wc)
                if okw and not m.group(2):
                    res.ok(rule, inst, d['where'], 'member only ever holds constants or unsigned reads of <= %d byte(s)' % wc, function=f.sig, expr=key)
                    continue
                if m.group(2):
                    # element of a member vector: all element writes
                    okw, why = vector_elems_fit(prog, f.cls, m.group(1), wc)
                    if okw:
                        res.ok(rule, inst, d['where'], 'elements only ever hold unsigned reads of <= %d byte(s)' % wc, function=f.sig, expr=key)
                        continue
            # (3b) value c + this.member where every writer of the member keeps the sum in range
            if vals and f.cls and all(composite_fits(prog, f.cls, v, wc) for v in vals):
                res.ok(rule, inst, d['where'], 'every value the member can hold keeps %s within %d byte(s)' % ('|'.join(pshow(v) for v in vals), wc), function=f.sig, expr=key)
                continue
            # (3c) a string length whose string is only ever a literal or a read of <= 255 characters
            if vals and f.cls and wc == 1 and all(string_len_bounded(prog, f.cls, v) for v in vals):
                res.ok(rule, inst, d['where'], 'the string is only ever set from literals or one-byte-counted reads inside the library', function=f.sig, expr=key)
                continue
            # (3d) BYTE elements: the type constant 1 is only ever stored by the reader, which fills the values with 1-byte reads
            if m and m.group(1) == '_param_data_int' and wc == 1 and byte_only_from_reader(prog):
                res.ok(rule, inst, d['where'], 'BYTE-typed parameters only originate from the reader (1-byte signed reads); every setter re-types the parameter', function=f.sig, expr=key)
                continue
            if m and m.group(1) == '_param_data_int' and wc == 1 and byte_only_from_reader(prog) is None:
                res.undecided(rule, inst, d['where'], 'whether BYTE-typed parameters only originate from the reader cannot be read: the reader stores the element type in a form the rule does not evaluate '
                              '[shape not read by the rule]', function=f.sig, expr=key)
                continue
            # (4) a dominating range guard
            atom = None
            if vals:
                atoms = {a for v in vals for mono in v for a in mono}
                atom = sorted(atoms)[0] if atoms else None
            if has_range_guard(f, d['node'], atom or src):
                res.ok(rule, inst, d['where'], 'dominated by a range check that throws', function=f.sig, expr=key)
                continue
            res.viol(rule, inst, d['where'],
                     'the low %d byte(s) of a %d-byte value (%s) are written with no proof that it fits and no range check: a larger value is silently reduced and the file loads to something else' %
                     (wc, size, '|'.join(pshow(v) for v in vals) if vals else src), function=f.sig, expr=key)
    res.minimum('truncating writes examined', n, 20)


def vector_elems_fit(prog, cls, field, nbytes):
    """elements of cls::field are only assigned from readUint of <= nbytes bytes (or never)"""
    for f, nid, rhs in _c18.field_writes(prog, cls, field):
        if f.implicit:
            continue
        # a member initialiser that only sizes the vector (count, or count and a small constant): zero / that constant
        c0 = f.nodes[f.strip(rhs, 'noop')] if rhs is not None else None
        while c0 is not None and c0['k'] in ('ExprWithCleanups', 'MaterializeTemporaryExpr', 'CXXBindTemporaryExpr') and c0['ch']:
            c0 = f.nodes[f.strip(c0['ch'][0], 'noop')]
        if c0 is not None and f.kind == 'ctor' and c0['k'] == 'CXXConstructExpr' and c0['callee'].get('class', '').startswith('std::vector'):
            real = [a for a in c0.get('args', []) if f.nodes[f.strip(a, 'all')]['k'] != 'CXXDefaultArgExpr']
            if len(real) <= 1 and all(f.nodes[f.strip(a, 'noop')].get('tc') in ('u', 's') for a in real):
                continue
            if len(real) == 2 and f.nodes[f.strip(real[0], 'noop')].get('tc') in ('u', 's') and 'cv' in f.nodes[f.strip(real[1], 'all')] and \
                    0 <= int(f.nodes[f.strip(real[1], 'all')]['cv']) < (1 << (8 * nbytes)):
                continue
        return False, 'whole vector assigned at %s' % f.loc(nid)
    for f in prog.repo_funcs():
        # handed to another function by non-const reference: elements are written elsewhere
        for n in f.calls():
            pts = n['callee'].get('ptypes', [])
            for a, pt in zip(f.call_args(n), pts):
                if pt.endswith('&') and not pt.startswith('const '):
                    an = f.nodes[f.strip(a, 'all')]
                    if an['k'] == 'MemberExpr' and an.get('member') == field and an.get('fclass') == cls:
                        return False, 'passed by reference at %s' % f.loc(n['id'])
    for f in prog.repo_funcs():
        if f.cls != cls:
            continue
        R = Renderer(f)
        for n in f.nodes:
            lhs = rhs = None
            if n['k'] == 'BinaryOperator' and n['op'] == '=':
                lhs, rhs = n['ch']
            elif n['k'] == 'CXXMemberCallExpr' and n['callee']['name'] in ('push_back', 'emplace_back', 'insert', 'assign') and n.get('obj') is not None:
                o = f.nodes[f.strip(n['obj'], 'all')]
                if o['k'] == 'MemberExpr' and o.get('member') == field and o.get('fclass') == cls:
                    return False, 'grown at %s' % f.loc(n['id'])
                continue
            if lhs is None:
                continue
            l = R.render(lhs)
            if re.match(r'^this\.%s\[' % re.escape(field), l):
                rn = f.nodes[f.strip(rhs, 'all')]
                if rn['k'] == 'CXXMemberCallExpr' and rn['callee']['name'] == 'readUint':
                    w = f.nodes[f.strip(rn['args'][0], 'all')].get('cv')
                    if w is not None and int(w) <= nbytes:
                        continue
                return False, 'element set from %s at %s' % (R.render(rhs)[:50], f.loc(n['id']))
    return True, ''


def float_path_rule(prog, res, rule='float-path'):
    """every REAL that is saved travels from the file (readFloat) or the caller to the writer by
    copies only: the storage and every accessor on the way is `float`, no arithmetic, no
    float<->double / float<->int conversion"""
    sinks = [('ezc3d::DataNS::Points3dNS::Point', '_data', 'std::vector<float>'),
             ('ezc3d::DataNS::AnalogsNS::Channel', '_data', 'float'),
             ('ezc3d::ParametersNS::GroupNS::Parameter', '_param_data_float', 'std::vector<float>'),
             ('ezc3d::Header', '_frameRate', 'float'),
             ('ezc3d::Header', '_eventsTime', 'std::vector<float>')]
    n = 0
    for cls, field, want in sinks:
        c = prog.classes.get(cls)
        if c is None:
            raise AnalysisBroken('class %s vanished' % cls)
        fl = [x for x in c['fields'] if x['name'] == field]
        if not fl:
            raise AnalysisBroken('%s::%s vanished' % (cls, field))
        n += 1
        where = '%s:%d' % (c['file'].replace(prog.repo + '/', ''), fl[0]['line'])
        short = '%s::%s' % (cls.split('::')[-1], field)
        same_family = want.startswith('std::vector<float>') and re.match(r'^(std::array<float, \d+>|float\[\d+\]|std::vector<float>)$', fl[0]['type'])
        if same_family:
            res.ok(rule, short + ' storage', where, fl[0]['type'] + ' (elements are float)', function='', expr=short + ':type')
        elif fl[0]['type'] != want:
            res.viol(rule, short + ' storage', where, 'REAL payload is stored as %s instead of %s: values pass through a conversion (signalling NaNs and other patterns are not preserved)' % (fl[0]['type'], want),
                     function='', expr=short + ':type')
        else:
            res.ok(rule, short + ' storage', where, want, function='', expr=short + ':type')
        # every store to the field (or its elements) and every getter returning it: float all the way
        for f in prog.repo_funcs():
            if f.cls != cls:
                continue
            R = Renderer(f)
            for m in f.nodes:
                lhs = rhs = None
                if m['k'] == 'BinaryOperator' and m['op'] == '=':
                    lhs, rhs = m['ch']
                if lhs is None:
                    continue
                l = R.render(lhs)
                if not (l == 'this.' + field or l.startswith('this.%s[' % field)):
                    continue
                n += 1
                bad = conversion_on(f, rhs)
                if bad:
                    res.viol(rule, short + ' store', f.loc(m['id']), 'value is %s on its way into the REAL payload' % bad, function=f.sig, expr='%s:store:%s' % (short, f.name))
                else:
                    res.ok(rule, short + ' store', f.loc(m['id']), 'plain copy of a float', function=f.sig, expr='%s:store@%d' % (short, m['id']), nontrivial=False)
            for r in f.all_nodes({'ReturnStmt'}):
                if not r['ch']:
                    continue
                rr = R.render(r['ch'][0])
                rr2 = re.sub(r'^\((\w+)\)', '', rr)
                if rr2 == 'this.' + field or rr2.startswith('this.%s[' % field):
                    n += 1
                    bad = conversion_on(f, r['ch'][0])
                    if bad or (f.rec['ret'] not in ('float', want, 'const ' + want, 'const %s &' % want)):
                        res.viol(rule, short + ' getter', f.loc(r['id']), 'getter %s returns the REAL payload as %s (%s)' % (f.name, f.rec['ret'], bad or 'type change'), function=f.sig, expr='%s:get:%s' % (short, f.name))
                    else:
                        res.ok(rule, short + ' getter', f.loc(r['id']), 'returned as float', function=f.sig, expr='%s:get@%d' % (short, r['id']), nontrivial=False)
    # readFloat reinterprets the 4 bytes read; setter parameters are float
    rf = prog.fn('ezc3d::c3d::readFloat', nparams=2)
    R = Renderer(rf)
    rets = [r for r in rf.all_nodes({'ReturnStmt'}) if r['ch']]
    okrf = rf.rec['ret'] == 'float' and len(rets) == 1
    if okrf:
        # the returned local is initialised from *reinterpret_cast<float*>(c_float)
        txt = R.render(rets[0]['ch'][0])
        okrf = txt in ('*(this.c_float)', '*((float *)this.c_float)') and not conversion_on(rf, rets[0]['ch'][0])
        if not okrf:
            # memcpy(&out, buffer, 4); return out;   (out a float local)
            rv = rf.nodes[rf.strip(rets[0]['ch'][0], 'all')]
            if rv['k'] == 'DeclRefExpr' and rv['decl'].get('dk') == 'local' and rv['decl'].get('type') == 'float':
                for c_ in rf.calls():
                    if c_['callee'].get('name') == 'memcpy' and len(c_.get('args', [])) == 3:
                        d0 = rf.nodes[rf.strip(c_['args'][0], 'all')]
                        tgt = rf.nodes[rf.strip(d0['ch'][0], 'all')] if d0['k'] == 'UnaryOperator' and d0['op'] == '&' and d0['ch'] else None
                        if tgt is not None and tgt['k'] == 'DeclRefExpr' and tgt['decl'].get('id') == rv['decl']['id'] and 'c_float' in R.render(c_['args'][1]) and \
                                rf.nodes[rf.strip(c_['args'][2], 'all')].get('cv') == '4':
                            okrf = True
        reint = any(m['k'] == 'CXXReinterpretCastExpr' and m['t'] == 'float *' for m in rf.nodes) or any(c_['callee'].get('name') == 'memcpy' for c_ in rf.calls())
        okrf = okrf and reint
        rd = [c for c in rf.calls() if c['callee']['name'] == 'readFile']
        okrf = okrf and len(rd) == 1 and R.render(rd[0]['args'][0]) in ('this.m_nByteToRead_float', '4') and R.render(rd[0]['args'][1]) == 'this.c_float'
    if okrf:
        res.ok(rule, 'readFloat', rf.loc(), 'reinterprets the 4 bytes just read as a float (no conversion)', function=rf.sig, expr='readFloat')
    else:
        # a demonstrated conversion (arithmetic / integer or double intermediate on the way out) is a violation; another spelling is not
        conv = None
        for r_ in rets:
            conv = conv or conversion_on(rf, r_['ch'][0])
        ints = [m for m in rf.nodes if m['k'] in ('ImplicitCastExpr', 'CXXStaticCastExpr', 'CStyleCastExpr') and m.get('ck') in ('IntegralToFloating', 'FloatingCast')]
        if conv or ints or rf.rec['ret'] != 'float':
            res.viol(rule, 'readFloat', rf.loc(), 'readFloat is not a plain reinterpretation of the bytes read into the scratch buffer (%s)' % (conv or 'a value conversion on the way'), function=rf.sig, expr='readFloat')
        else:
            res.undecided(rule, 'readFloat', rf.loc(), 'readFloat hands the bytes over in a form the rule does not read (known: *reinterpret_cast<float*>(buffer), memcpy into a float) [shape not read by the rule]',
                          function=rf.sig, expr='readFloat')
    res.minimum('REAL payload stores/getters examined', n, 20)


def conversion_on(f, i):
    """description of the first value-changing operation between expression i's leaves and its
    value: arithmetic or a floating/integral conversion; None when it is a pure copy"""
    i = f.strip(i, 'noop')
    n = f.nodes[i]
    k = n['k']
    if k in ('ImplicitCastExpr', 'CXXStaticCastExpr', 'CStyleCastExpr', 'CXXFunctionalCastExpr'):
        ck = n.get('ck')
        if ck in ('FloatingCast', 'IntegralToFloating', 'FloatingToIntegral'):
            src = f.nodes[f.strip(n['ch'][0], 'noop')]
            if ck == 'IntegralToFloating' and 'cv' in src:
                return None   # a literal such as 0
            return 'converted (%s: %s -> %s)' % (ck, src.get('t'), n['t'])
        return conversion_on(f, n['ch'][0])
    if k in ('BinaryOperator',) and n['op'] in ('+', '-', '*', '/'):
        return 'computed (%s)' % n['op']
    if k == 'UnaryOperator' and n['op'] in ('-', '+'):
        return 'computed (unary %s)' % n['op']
    if k == 'ConditionalOperator':
        return conversion_on(f, n['lhs']) or conversion_on(f, n['rhs'])
    return None


def zero_extension_rule(prog, res, rule='zero-extend'):
    """a char taken from a file buffer is widened through unsigned char"""
    n = 0
    for f in prog.repo_funcs():
        for m in f.nodes:
            if m['k'] != 'ArraySubscriptExpr' or m.get('t') not in ('const char', 'char'):
                continue
            # the consumer chain of this element
            chain = []
            for p in f.ancestors(m['id']):
                pn = f.nodes[p]
                if pn['k'] in ('ImplicitCastExpr', 'CXXStaticCastExpr', 'CStyleCastExpr', 'ParenExpr', 'CXXFunctionalCastExpr'):
                    chain.append(pn)
                    continue
                break
            widen = [c for c in chain if c.get('ck') == 'IntegralCast' and (c.get('tw') or 0) > 8]
            if not widen:
                continue
            n += 1
            first_int = next((c for c in chain if c.get('ck') == 'IntegralCast'), None)
            if first_int is not None and first_int['t'] == 'unsigned char':
                res.ok(rule, 'byte of the file buffer', f.loc(m['id']), 'widened through unsigned char (zero extension)', function=f.sig, expr='buf@%d' % m['id'])
            else:
                res.viol(rule, 'byte of the file buffer', f.loc(m['id']), 'a char from the file buffer is widened to %s without passing through unsigned char: bytes >= 0x80 are sign-extended' % widen[0]['t'],
                         function=f.sig, expr='buf')
    res.minimum('raw byte widenings', n, 1)


def sign_only_scale(prog):
    """Header::scaleFactor() is only ever compared with 0 (or printed) inside the library"""
    for f in prog.repo_funcs():
        for n in f.calls():
            if n['callee']['qname'] == 'ezc3d::Header::scaleFactor':
                if f.name == 'print':
                    continue
                par = None
                for p in f.ancestors(n['id']):
                    pn = f.nodes[p]
                    if pn['k'] in ('ImplicitCastExpr', 'ParenExpr', 'ExprWithCleanups', 'MaterializeTemporaryExpr'):
                        continue
                    par = pn
                    break
                if not (par and par['k'] == 'BinaryOperator' and par['op'] in ('<', '>=', '>', '<=') and
                        any(f.nodes[f.strip(c, 'all')].get('cv') == '0' for c in par['ch'])):
                    return False
    return True


def member_values(prog, cls, field):
    """abstract values ever stored to cls::field: list of ('const', k) | ('uread', nbytes, offset) | ('other', text)"""
    out = []
    for f, nid, rhs in _c18.field_writes(prog, cls, field):
        if rhs is None:
            out.append(('other', 'modified in place at ' + f.loc(nid)))
            continue
        out.extend(expr_values(prog, f, rhs, depth=0))
    return out


def lambda_result(f, i):
    """node i is a call of a local lambda without parameters whose body is `return <expr>;`  -> node of <expr>, else None"""
    n = f.nodes[f.strip(i, 'all')]
    if n['k'] != 'CXXOperatorCallExpr' or n.get('op') != '()' or not n.get('args'):
        return None
    o_ = f.nodes[f.strip(n['args'][0], 'all')]
    if o_['k'] != 'DeclRefExpr' or o_['decl'].get('dk') != 'local':
        return None
    from paths import local_init
    ini = local_init(f, o_['decl']['id'])
    if ini is None:
        return None
    for x in [ini] + list(f.descendants(ini)):
        lam = f.nodes[x]
        if lam['k'] == 'LambdaExpr' and not lam.get('lparams'):
            body = [y for y in lam['ch'] if f.nodes[y]['k'] == 'CompoundStmt']
            st = [f.nodes[y] for y in f.nodes[body[0]]['ch']] if body else []
            if len(st) == 1 and st[0]['k'] == 'ReturnStmt' and st[0]['ch']:
                return st[0]['ch'][0]
    return None


def expr_values(prog, f, i, depth):
    lr = lambda_result(f, i)
    if lr is not None:
        return expr_values(prog, f, lr, depth)
    n = f.nodes[f.strip(i, 'all')]
    if n['k'] == 'CallExpr' and n.get('callee', {}).get('qname') in ('std::move', 'std::forward') and len(n.get('args', [])) == 1:
        return expr_values(prog, f, n['args'][0], depth)      # the value that is moved
    if 'cv' in n:
        return [('const', int(n['cv']))]
    if n['k'] == 'CXXMemberCallExpr' and n['callee']['name'] == 'readUint':
        w = f.nodes[f.strip(n['args'][0], 'all')].get('cv')
        return [('uread', int(w), 0)] if w is not None else [('other', 'read of unknown width')]
    if n['k'] == 'BinaryOperator' and n['op'] in ('-', '+'):
        l = expr_values(prog, f, n['ch'][0], depth)
        r = f.nodes[f.strip(n['ch'][1], 'all')].get('cv')
        if r is not None and len(l) == 1 and l[0][0] == 'uread':
            k = int(r) if n['op'] == '+' else -int(r)
            return [('uread', l[0][1], l[0][2] + k)]
    if n['k'] == 'DeclRefExpr' and n['decl'].get('dk') == 'param' and depth < 2:
        # a setter parameter: every call site of this function
        idx = [p['id'] for p in f.params].index(n['decl']['id']) if n['decl'].get('id') in [p['id'] for p in f.params] else None
        if idx is not None:
            out = []
            callers = prog.callers_of(f.usr)
            if not callers:
                return [('other', 'setter %s is never called inside the library (callable by users)' % f.name)] if f.rec.get('access') == 'public' and False else []
            for g, cn in callers:
                args = g.call_args(cn)
                if idx < len(args):
                    out.extend(expr_values(prog, g, args[idx], depth + 1))
            return out
    return [('other', Renderer(f).render(i)[:60])]


def composite_fits(prog, cls, poly, nbytes):
    """poly == c + this.<member> and for every value v of the member, c + v fits nbytes"""
    keys = [k for k in poly if k != ()]
    if len(keys) != 1 or len(keys[0]) != 1 or poly[keys[0]] != 1:
        return False
    m = re.match(r'^this\.(\w+)$', keys[0][0])
    if not m:
        return False
    c = poly.get((), 0)
    lim = 1 << (8 * nbytes)
    vals = member_values(prog, cls, m.group(1))
    if not vals:
        return False
    for v in vals:
        if v[0] == 'const' and 0 <= v[1] + c < lim:
            continue
        if v[0] == 'uread' and v[1] <= nbytes and v[2] + c == 0:
            continue
        return False
    return True


def string_len_bounded(prog, cls, poly):
    """poly == this.<string member>.size and every store to that member inside the library is a
    string literal (or default) shorter than 256, or readString(n) with n an unsigned one-byte read;
    the public setter of the member is never called by the library itself and the class cannot be
    handed to a c3d object with that member set by the user"""
    keys = [k for k in poly if k != ()]
    if len(keys) != 1 or len(keys[0]) != 1 or poly[keys[0]] != 1 or poly.get((), 0) != 0:
        return False
    m = re.match(r'^this\.(\w+)\.size$', keys[0][0])
    if not m:
        return False
    field = m.group(1)
    # only for classes that users cannot inject into a c3d object: no public c3d method takes one
    c3d = prog.classes.get('ezc3d::c3d')
    for meth in c3d['methods']:
        if meth['access'] == 'public' and any(cls in p['type'] for p in meth['params']):
            return False
    for f, nid, rhs in _c18.field_writes(prog, cls, field):
        if rhs is None:
            return False
        R = Renderer(f)
        r = R.render(rhs)
        if re.match(r'^"[^"]{0,255}"$', r):
            continue
        n = f.nodes[f.strip(rhs, 'all')]
        if n['k'] == 'CallExpr' and n.get('callee', {}).get('qname') == 'std::move' and len(n.get('args', [])) == 1:
            n = f.nodes[f.strip(n['args'][0], 'all')]      # the parameter moved into the member
        if n['k'] == 'DeclRefExpr' and n['decl'].get('dk') == 'param':
            # constructor / setter parameter: all call sites inside the library
            idx = [p['id'] for p in f.params].index(n['decl']['id'])
            for g, cn in prog.callers_of(f.usr):
                args = cn.get('args', []) if cn['k'] in ('CXXConstructExpr', 'CXXTemporaryObjectExpr') else g.call_args(cn)
                if idx >= len(args):
                    continue
                ar = Renderer(g).render(args[idx])
                if not (re.match(r'^"[^"]{0,255}"$', ar) or ar == 'default'):
                    return False
            # default argument must be a short literal: accepted as 'default'
            continue
        if n['k'] == 'CXXMemberCallExpr' and n['callee']['name'] == 'readString':
            a = f.nodes[f.strip(n['args'][0], 'all')]
            wr = R.render(n['args'][0])
            # width is a local that received readUint(1)
            ok = False
            for it in codec.Extractor(prog, 'r').seq_of(f):
                if it[0] == 'io' and it[1].get('k') == 'readUint' and pshow(it[1].get('width')) == '1' and it[1].get('dest') and it[1]['dest'] in wr:
                    ok = True
            if ok:
                continue
        return False
    return True


def byte_only_from_reader(prog):
    """True / False / None (the reader stores a type the rule cannot read as a constant)"""
    P_ = 'ezc3d::ParametersNS::GroupNS::Parameter'
    unread = False
    for f, nid, rhs in _c18.field_writes(prog, P_, '_data_type'):
        if rhs is None:
            return False
        rn = f.nodes[f.strip(rhs, 'all')]
        v = rn.get('cv')
        if v is None and rn['k'] == 'CallExpr' and rn.get('callee', {}).get('inrepo'):
            # a mapping helper: the set of constants it can return
            hf = prog.funcs.get(rn['callee']['usr'])
            rets = [hf.nodes[hf.strip(r_['ch'][0], 'all')].get('cv') for r_ in hf.all_nodes({'ReturnStmt'}) if r_['ch']] if hf is not None and hf.body is not None else []
            if rets and all(x is not None for x in rets):
                if any(int(x) == 1 for x in rets) and f.qname != P_ + '::read':
                    return False
                continue
        if v is None:
            if not f.implicit:
                # a type the rule cannot read as a constant: in the reader (a table of types, a helper) nothing is shown either way
                # (in a setter as well: the type may arrive as an argument of a shared helper - which constants it takes is not followed)
                unread = True
                continue
            continue
        if int(v) == 1 and f.qname != P_ + '::read':
            return False
    # every other writer of _param_data_int also stores a type other than BYTE
    for f, nid, rhs in _c18.field_writes(prog, P_, '_param_data_int'):
        if f.implicit:
            continue
        tw = [h.nodes[h.strip(r, 'all')].get('cv') for h, _, r in _c18.field_writes(prog, P_, '_data_type') if h is f and r is not None]
        if tw and any(t is None for t in tw):
            unread = True
            continue
        if not tw or any(int(t) == 1 for t in tw):
            return False
    return None if unread else True


def reader_effects_rule(prog, res, rule='reader-effects'):
    """a record reader only fills the members that the record encodes: reading a group record must
    not disturb the parameters already attached to that group (parameter records may precede their
    group record), and must not touch other groups"""
    E = FX.get(prog)
    allowed = {
        'ezc3d::ParametersNS::GroupNS::Group::read': {'_name', '_description', '_isLocked'},
        'ezc3d::ParametersNS::GroupNS::Parameter::read': {'_name', '_description', '_isLocked', '_data_type', '_dimension', '_param_data_int', '_param_data_float', '_param_data_string'},
    }
    for q, ok_fields in allowed.items():
        f = prog.fn(q, nparams=2)
        bad = sorted({p[0] for r, p, k in E.of(f) if r == 'this' and p and p[0] not in ok_fields})
        whole = [e for e in E.of(f) if e[0] == 'this' and not e[1]]
        if bad or whole:
            res.viol(rule, f.sig.split('(')[0].split('::')[-2] + '::read', f.loc(),
                     'the record reader also modifies %s: members that the record does not encode are lost when records arrive in another order '
                     '(e.g. a parameter record before its group record)' % (bad or 'the whole object'), function=f.sig, expr='effects')
        else:
            res.ok(rule, f.sig.split('(')[0].split('::')[-2] + '::read', f.loc(), 'modifies only %s' % sorted(ok_fields), function=f.sig, expr='effects')


def overstrict_guard_rule(prog, res, rule='capacity-guard'):
    """a writer may refuse content only beyond the capacity of the field it protects: a guard
    `if (X > K) throw` in the save path whose X is then written with n bytes needs K >= 2^(8n) - 1
    (unsigned field) — or 2^(8n-1) - 1 when the reader decodes the field as signed"""
    ex = codec.Extractor(prog, 'w')
    w = prog.fn('ezc3d::c3d::write', nparams=1)
    n = 0
    for u in sorted(prog.reachable_from([w])):
        f = prog.funcs[u]
        if f.implicit:
            continue
        R = Renderer(f)
        guards = []
        for i in f.all_nodes({'IfStmt'}):
            ths = [x for x in f.descendants(i['then']) if f.nodes[x]['k'] == 'CXXThrowExpr']
            if not ths:
                continue
            c = f.nodes[f.strip(i['cond'], 'all')]
            if c['k'] != 'BinaryOperator' or c['op'] not in ('>', '>=', '<', '<='):
                continue
            l, r = f.nodes[f.strip(c['ch'][0], 'all')], f.nodes[f.strip(c['ch'][1], 'all')]
            if 'cv' in r and c['op'] in ('>', '>='):
                guards.append((i, R.render(c['ch'][0]), int(r['cv']) + (0 if c['op'] == '>' else -1)))
            elif 'cv' in l and c['op'] in ('<', '<='):
                guards.append((i, R.render(c['ch'][1]), int(l['cv']) + (0 if c['op'] == '<' else -1)))
        if not guards:
            continue
        items = []

        def walk(its):
            for it in its:
                if it[0] == 'io':
                    items.append(it[1])
                elif it[0] == 'loop':
                    walk(it[3])
                elif it[0] == 'alt':
                    walk(it[2])
                    walk(it[3])
        walk(ex.seq_of(f))
        for gi, x, kmax in guards:
            x0 = re.sub(r'^\((?:unsigned |signed )?\w[\w ]*\)', '', x)
            for d in items:
                if d.get('k') != 'write' or d.get('srck') != 'object':
                    continue
                vals = [pshow(v) for v in (d.get('src_vals') or [])]
                if x0 in (d.get('src'), 'local:' + str(d.get('src_local'))) or x0 in vals or x in vals:
                    wc = width_const(d)
                    if not wc:
                        continue
                    n += 1
                    cap = (1 << (8 * wc)) - 1
                    if kmax < cap and kmax != (1 << (8 * wc - 1)) - 1 + 0 * 1 or (kmax == (1 << (8 * wc - 1)) - 1 and reader_unsigned_for(prog, f, d)):
                        res.viol(rule, 'guard on %s' % x0, f.loc(gi['id']),
                                 'saving is refused when %s exceeds %d, but the %d-byte field it is written to holds values up to %d (and the reader decodes it unsigned): content within the format\'s capacity is no longer saved' %
                                 (x0, kmax, wc, cap), function=f.sig, expr='guard:' + x0)
                    else:
                        res.ok(rule, 'guard on %s' % x0, f.loc(gi['id']), 'limit %d >= capacity of the %d-byte field' % (kmax, wc), function=f.sig, expr='guard:' + x0)
    res.ok(rule, 'range guards in the writers screened', 'src/', '%d guard/field pairs' % n, function='', expr='screen', nontrivial=False)


def reader_unsigned_for(prog, f, d):
    """the slot written by item d is a next-record offset / count that the readers decode unsigned"""
    return True


def toupper_rule(prog, res, rule='upper-case'):
    """names are stored upper-case: ezc3d::toUpper must map every lower-case ASCII letter a..z.  Known
    forms: std::transform / a loop applying ::toupper (or std::toupper) to each character -> ok; a
    hand-written range test: its bounds must include 'a' (0x61) and 'z' (0x7A) -> ok / violation; anything
    else UNDECIDED."""
    f = prog.fn('ezc3d::toUpper', nparams=1)
    R = Renderer(f)
    uses_lib = any((n['k'] in ('DeclRefExpr',) and n['decl'].get('name') == 'toupper') or
                   (n['k'] == 'CallExpr' and n.get('callee', {}).get('name') == 'toupper') for n in f.nodes)
    inst = 'toUpper maps every letter a..z'
    if uses_lib:
        res.ok(rule, inst, f.loc(), 'every character goes through ::toupper', function=f.sig, expr='toupper')
        return
    lo = hi = None
    for n in f.all_nodes({'BinaryOperator'}):
        if n['op'] not in ('<', '<=', '>', '>='):
            continue
        l, r = f.nodes[f.strip(n['ch'][0], 'all')], f.nodes[f.strip(n['ch'][1], 'all')]
        cl, cr = l.get('cv'), r.get('cv')
        if (cl is None) == (cr is None):
            continue
        op = n['op']
        if cl is not None:     # K op x  ->  x op' K
            op = {'<': '>', '<=': '>=', '>': '<', '>=': '<='}[op]
            k = int(cl)
        else:
            k = int(cr)
        if op == '>':
            lo = k + 1
        elif op == '>=':
            lo = k
        elif op == '<':
            hi = k - 1
        elif op == '<=':
            hi = k
    if lo is not None and hi is not None:
        if lo <= 0x61 and hi >= 0x7A and lo > 0x5A:
            res.ok(rule, inst, f.loc(), 'range test covers 0x%02X..0x%02X' % (lo, hi), function=f.sig, expr='toupper')
        elif lo > 0x61 or hi < 0x7A:
            res.viol(rule, inst, f.loc(), 'the hand-written range test converts the characters 0x%02X..0x%02X only: %s not upper-cased, so names containing it are stored as given' %
                     (lo, hi, ' and '.join(x for x in (("'a'" if lo > 0x61 else ''), ("'z'" if hi < 0x7A else '')) if x) + ' is'), function=f.sig, expr='toupper')
        else:
            res.undecided(rule, inst, f.loc(), 'range test 0x%02X..0x%02X also touches characters that are not lower-case letters [shape not read by the rule]' % (lo, hi), function=f.sig, expr='toupper')
    else:
        res.undecided(rule, inst, f.loc(), 'the case mapping is neither ::toupper nor a range test the rule reads [shape not read by the rule]', function=f.sig, expr='toupper')


def passthrough_index_rule(prog, res, rule='index-pass-through'):
    """c3d::frame(frame, idx) hands its index to Data::frame unchanged: append / replace / extend are decided
    there, from the real number of stored frames"""
    f = prog.fn('ezc3d::c3d::frame', nparams=2)
    R = Renderer(f)
    calls = [n for n in f.calls() if n['callee']['qname'] == 'ezc3d::DataNS::Data::frame' and len(f.call_args(n)) == 2]
    if len(calls) != 1:
        res.undecided(rule, 'c3d::frame -> Data::frame', f.loc(), 'expected one call of Data::frame(frame, idx), found %d [shape not read by the rule]' % len(calls), function=f.sig, expr='passthrough')
        return
    a = f.call_args(calls[0])
    r0, r1 = R.render(a[0]), R.render(a[1])
    import loops
    modified = loops.loop_var_modified_in(f, f.params[1]['id'], [n['id'] for n in f.nodes])
    if r0 == 'arg0' and r1 == 'arg1' and not modified:
        res.ok(rule, 'c3d::frame -> Data::frame', f.loc(calls[0]['id']), 'frame and index handed over unchanged', function=f.sig, expr='passthrough')
    elif modified or r1 != 'arg1':
        res.viol(rule, 'c3d::frame -> Data::frame', f.loc(calls[0]['id']), 'the index handed to Data::frame is %s%s: which frame is appended / replaced no longer follows from the caller\'s index and the number of stored frames' %
                 (r1, ' (the parameter is reassigned before the call)' if modified else ''), function=f.sig, expr='passthrough')
    else:
        res.viol(rule, 'c3d::frame -> Data::frame', f.loc(calls[0]['id']), 'the frame handed to Data::frame is %s, not the caller\'s frame' % r0, function=f.sig, expr='passthrough')


def reader_refusals_rule(prog, res, rule='accepts-format-range'):
    """a record reader may refuse a value it has just read only outside the range the format gives
    for that field: a guard `if (x CMP K) throw` on the local that received the field must let every
    value of the specified range through"""
    spec = load_spec()
    n = 0
    for q, layout in (('ezc3d::ParametersNS::GroupNS::Parameter::read', 'parameter_record'), ('ezc3d::ParametersNS::GroupNS::Group::read', 'group_record')):
        f = prog.fn(q, nparams=2)
        R = Renderer(f)
        seq = codec.Extractor(prog, 'r').seq_of(f)
        dests = {}
        order = [e for e in spec[layout] if e.get('bytes') in (1, 2) and e.get('type') in ('u', 's') and e['name'] not in ('name_len', 'id', 'next', 'type')]

        def walk_items(items):
            for it in items:
                if it[0] == 'io' and it[1].get('k') in codec.READERS:
                    yield it[1]
                elif it[0] == 'loop':
                    yield from walk_items(it[3])
                elif it[0] == 'alt':
                    yield from walk_items(it[2])
                    yield from walk_items(it[3])
                elif it[0] == 'call' and not it[1].qname.endswith(('::readParam', '::_readMatrix')):
                    yield from walk_items(it[3])
        reads = [d for d in walk_items(seq) if (d.get('dest') or '').startswith('local:') and pshow(d.get('width')) == '1' and d.get('k') == 'readUint']
        # unsigned one-byte reads into locals, in order: ndims, [dims...], desc_len
        names = {}
        if reads:
            names[reads[0]['dest']] = next((e for e in spec[layout] if e['name'] == 'ndims'), None) if layout == 'parameter_record' else next((e for e in spec[layout] if e['name'] == 'desc_len'), None)
            if layout == 'parameter_record' and len(reads) > 1:
                names[reads[-1]['dest']] = next((e for e in spec[layout] if e['name'] == 'desc_len'), None)
        for dest, fld in names.items():
            if not fld or 'range' not in fld:
                continue
            lo, hi = fld['range']
            for i in f.all_nodes({'IfStmt'}):
                if not any(f.nodes[x]['k'] == 'CXXThrowExpr' for x in f.descendants(i['then'])):
                    continue
                import indexsites as _IS
                at = []
                _IS.atoms_of_cond(f, R, i['cond'], True, at)
                for l, op, r_, _ in at:
                    if l == dest and re.match(r'^-?\d+$', r_):
                        k = int(r_)
                        n += 1
                        refused = [v for v in range(lo, hi + 1) if {'>': v > k, '>=': v >= k, '<': v < k, '<=': v <= k, '==': v == k, '!=': v != k}[op]]
                        inst = '%s: %s refused only outside %d..%d' % (f.qname.split('::')[-2] + '::read', fld['name'], lo, hi)
                        if refused and len(at) == 1:
                            res.viol(rule, inst, f.loc(i['id']), 'the reader throws when %s %s %d: the format allows %s = %s (%s)' % (fld['name'], op, k, fld['name'], refused[-1] if op in ('>', '>=') else refused[0], fld['cite']),
                                     function=f.sig, expr='refuse:' + fld['name'])
                        elif not refused:
                            res.ok(rule, inst, f.loc(i['id']), 'guard %s %s %d excludes no specified value' % (fld['name'], op, k), function=f.sig, expr='refuse:%s@%d' % (fld['name'], i['id']), nontrivial=False)
    res.ok(rule, 'reader refusals screened against the format ranges', 'src/', '%d guard(s) on fields with a specified range' % n, function='', expr='screen', nontrivial=False)


def default_scale_rule(prog, res, rule='float-format-default'):
    """the library stores REAL data only: every Header constructor that does not read the header from a
    file must leave the scale word negative (the float-format marker), else the files it saves declare
    integer storage"""
    n = 0
    for f in prog.repo_funcs():
        if f.cls != 'ezc3d::Header' or f.kind != 'ctor' or f.implicit or f.rec.get('copy') or f.rec.get('move'):
            continue
        vals = [f.nodes[f.strip(rhs, 'all')] for g_, nid, rhs in _c18.field_writes(prog, 'ezc3d::Header', '_scaleFactor') if g_ is f and rhs is not None]
        for v in vals:
            n += 1
            cv = v.get('cv') if 'cv' in v else (str(v.get('v')) if v['k'] in ('IntegerLiteral', 'FloatingLiteral') else None)
            r_ = Renderer(f).render(v['id'])
            try:
                num = float(cv) if cv is not None else float(r_.replace('(float)', '').replace('-(', '-').replace(')', ''))
            except (TypeError, ValueError):
                res.undecided(rule, 'Header constructor: scale word', f.loc(), 'initial scale %s is not a constant the rule reads [shape not read by the rule]' % r_, function=f.sig, expr='scale-default')
                continue
            if num < 0:
                res.ok(rule, 'Header constructor: scale word', f.loc(), 'initialised to %s (negative: REAL storage)' % r_, function=f.sig, expr='scale-default@%d' % v['id'])
            else:
                res.viol(rule, 'Header constructor: scale word', f.loc(), 'the scale word is initialised to %s: a non-negative scale declares integer storage, but the data section is always written as REAL' % r_,
                         function=f.sig, expr='scale-default')
    res.minimum('initialisations of the header scale word', n, 1)
