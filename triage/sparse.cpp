#include "ezc3d.h"
#include <iostream>
#include <fstream>
#include <vector>
static std::vector<char> slurp(const std::string&p){std::ifstream f(p,std::ios::binary);return std::vector<char>((std::istreambuf_iterator<char>(f)),std::istreambuf_iterator<char>());}
static void spit(const std::string&p,const std::vector<char>&v){std::ofstream f(p,std::ios::binary);f.write(v.data(),v.size());}
int main(){
  auto v=slurp("/repo/test/c3dFiles/Vicon.c3d");
  // walk the parameter section, renumber the LAST group id g -> g+5 (records and its parameters)
  size_t base=512*( (unsigned char)v[0]-1);
  size_t p=base+4; int maxid=0; std::vector<size_t> idpos; 
  while(true){ int nl=(signed char)v[p]; if(nl==0) break; int id=(signed char)v[p+1]; idpos.push_back(p+1); if(abs(id)>maxid) maxid=abs(id); size_t off=p+2+abs(nl); unsigned nxt=(unsigned char)v[off]|((unsigned char)v[off+1]<<8); if(!nxt) break; p=off+nxt; }
  int newid=maxid+5; int n=0;
  for(size_t q:idpos){ int id=(signed char)v[q]; if(abs(id)==maxid){ v[q]=(char)(id<0?-newid:newid); ++n; } }
  spit("/tmp/triage/sparse.c3d",v);
  std::cout<<"renumbered group "<<maxid<<" -> "<<newid<<" ("<<n<<" records)\n";
  try{ ezc3d::c3d a("/tmp/triage/sparse.c3d"); std::cout<<"loaded: groups="<<a.parameters().nbGroups()<<"\n"; size_t named=0; for(size_t i=0;i<a.parameters().nbGroups();++i) if(a.parameters().group(i).name().size()) ++named; std::cout<<"named groups="<<named<<"\n";
    a.write("/tmp/triage/sparse2.c3d"); ezc3d::c3d b("/tmp/triage/sparse2.c3d"); size_t named2=0; for(size_t i=0;i<b.parameters().nbGroups();++i) if(b.parameters().group(i).name().size()) ++named2; std::cout<<"reloaded: groups="<<b.parameters().nbGroups()<<" named="<<named2<<" frames="<<b.data().nbFrames()<<" vs "<<a.data().nbFrames()<<"\n"; return (named2==named && b.data().nbFrames()==a.data().nbFrames())?0:1; }
  catch(std::exception&e){ std::cout<<"exception: "<<e.what()<<"\n"; return 1; }
}
