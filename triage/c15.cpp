#include "ezc3d.h"
#include <iostream>
int main(){
  ezc3d::c3d c;
  int r=0;
  try { c.write("/nonexistent_dir/x.c3d"); std::cout<<"missing dir: returned normally\n"; r|=1;} catch(std::ios_base::failure&e){std::cout<<"missing dir: failure thrown\n";}
  try { c.write("/dev/full"); std::cout<<"/dev/full: returned normally\n"; r|=2;} catch(std::ios_base::failure&e){std::cout<<"/dev/full: failure thrown\n";}
  try { c.write("/tmp/triage/ok.c3d"); std::cout<<"ok path: returned normally\n";} catch(std::ios_base::failure&e){std::cout<<"ok path: failure thrown\n"; r|=4;}
  return r;
}
