#include "ezc3d.h"
#include <iostream>
#include <cstring>
#include <fstream>
#include <unistd.h>
#include <sys/wait.h>
using namespace ezc3d;
static std::vector<char> slurp(const std::string&p){std::ifstream f(p,std::ios::binary);return std::vector<char>((std::istreambuf_iterator<char>(f)),std::istreambuf_iterator<char>());}
static void spit(const std::string&p,const std::vector<char>&v){std::ofstream f(p,std::ios::binary);f.write(v.data(),v.size());}
// run fn in a child; returns 0 ok, 1 defect shown, 2 crashed
template<class F> int child(F fn){ pid_t p=fork(); if(!p){ int r=fn(); _exit(r);} int st; waitpid(p,&st,0); if(WIFSIGNALED(st)) return 2; return WEXITSTATUS(st);}
static void report(const char*id,int r){ std::cout<<id<<": "<<(r==0?"ok":(r==1?"DEFECT":"CRASH"))<<std::endl;}
static size_t findParam(const std::vector<char>&v,const char*name){ // offset of name bytes in the parameter section
  size_t n=strlen(name); for(size_t i=512;i+n<v.size();++i) if(!memcmp(&v[i],name,n)) return i; return 0;}
int main(){
  const std::string vicon="/repo/test/c3dFiles/Vicon.c3d";
  // F1 residual dropped by Point copy
  report("F1", child([]{ DataNS::Points3dNS::Point p; p.residual(0.5f); DataNS::Points3dNS::Point q(p); return q.residual()==0.5f?0:1;}));
  // F2 append aliases caller frame
  report("F2", child([]{ c3d c; c.point("a"); DataNS::Frame f; DataNS::Points3dNS::Points pts; DataNS::Points3dNS::Point p; p.name("a"); p.x(1); pts.point(p); f.add(pts);
     ParametersNS::GroupNS::Parameter r("RATE"); r.set(100.0f); c.parameter("POINT", r);
     c.frame(f); c.frame(f);
     f.points_nonConst().point_nonConst(0).x(42);
     return c.data().frame(0).points().point(0).x()==1.0f ? 0:1;}));
  // F4/F5 undefined bytes: save twice with different heap state, compare
  report("F4", child([]{ c3d c; c.write("/tmp/triage/a.c3d"); auto a=slurp("/tmp/triage/a.c3d"); // label area: words 199..234 => bytes 396..467
     for(size_t i=396;i<468;++i) if(a[i]!=0) return 1; return 0;}));
  // F7 description of 200 chars
  report("F7", child([]{ c3d c; ParametersNS::GroupNS::Parameter p("LONGDESC", std::string(200,'d')); p.set(1); c.parameter("POINT", p); c.write("/tmp/triage/d.c3d");
     try{ c3d r("/tmp/triage/d.c3d"); return r.parameters().group("POINT").parameter("LONGDESC").description().size()==200?0:1;}catch(std::exception&e){return 1;}}));
  // F8 1-D padded string
  report("F8", child([&]{ auto v=slurp(vicon); size_t o=findParam(v,"COMPANY"); if(!o) return 3; // COMPANY name then 2 bytes offset, type(-1), ndim(1), dim, then text
     size_t t=o+7+2+1+1; int dim=(unsigned char)v[t]; v[t+dim]=' '; spit("/tmp/triage/v8.c3d",v);
     try{ c3d a("/tmp/triage/v8.c3d"); a.write("/tmp/triage/v8b.c3d"); c3d b("/tmp/triage/v8b.c3d"); return 0;}catch(std::exception&e){ return 1;}}));
  // F9 analog({}) on empty object
  report("F9", child([]{ c3d c; std::vector<DataNS::Frame> fr; try{ c.analog(fr);}catch(std::invalid_argument&){return 0;}catch(...){return 1;} return 1;}));
  // F10 partial mutation: second new point is a duplicate
  report("F10", child([]{ c3d c; c.point("a"); ParametersNS::GroupNS::Parameter r("RATE"); r.set(100.0f); c.parameter("POINT", r);
     DataNS::Frame f; DataNS::Points3dNS::Points pts; DataNS::Points3dNS::Point p; p.name("a"); pts.point(p); f.add(pts); c.frame(f);
     DataNS::Frame nf; DataNS::Points3dNS::Points np; DataNS::Points3dNS::Point p1; p1.name("b"); np.point(p1); DataNS::Points3dNS::Point p2; p2.name("a"); np.point(p2); nf.add(np);
     std::vector<DataNS::Frame> fr{nf};
     try{ c.point(fr);}catch(std::invalid_argument&){}
     return c.data().frame(0).points().nbPoints()==1?0:1;}));
  // F11 group created though parameter refused
  report("F11", child([]{ c3d c; ParametersNS::GroupNS::Parameter p("X"); size_t n=c.parameters().nbGroups(); try{ c.parameter("NEWGROUP", p);}catch(std::runtime_error&){} return c.parameters().nbGroups()==n?0:1;}));
  // F12 untrimmed name via constructor
  report("F12", child([]{ DataNS::Points3dNS::Point p("a "); DataNS::Points3dNS::Points pts; pts.point(p); try{ pts.pointIdx("a"); }catch(std::invalid_argument&){return 1;} return p.name()=="a"?0:1;}));
  // F13 CHAR with 0 dims / dim count 0x80
  report("F13a", child([&]{ auto v=slurp(vicon); size_t o=findParam(v,"COMPANY"); size_t t=o+7+2+1; v[t]=0; spit("/tmp/triage/v13.c3d",v); try{ c3d a("/tmp/triage/v13.c3d");}catch(std::exception&){} return 0;}));
  report("F13b", child([&]{ auto v=slurp(vicon); size_t o=findParam(v,"COMPANY"); size_t t=o+7+2+1; v[t]=(char)0x80; spit("/tmp/triage/v13.c3d",v); try{ c3d a("/tmp/triage/v13.c3d");}catch(std::exception&){} return 0;}));
  return 0;
}
