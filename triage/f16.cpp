// replay: an argument that is an element of the container it is stored into
#include "ezc3d.h"
#include <iostream>
int main(int argc, char** argv){
    int which = argc > 1 ? atoi(argv[1]) : 0;
    if (which == 0) {          // append a copy of an existing frame through the public API
        ezc3d::c3d c;
        c.point("p1");

        ezc3d::DataNS::Frame f; ezc3d::DataNS::Points3dNS::Points pts; ezc3d::DataNS::Points3dNS::Point p; p.name("p1"); p.x(1); pts.point(p); f.add(pts);
        c.parameter("POINT", [](){ ezc3d::ParametersNS::GroupNS::Parameter r("RATE"); r.set(std::vector<float>{100.f}, {1}); return r; }());
        c.frame(f);
        for (int i = 0; i < 40; ++i)
            c.frame(c.data().frame(0));      // argument aliases _frames[0]
        std::cout << c.data().nbFrames() << " frames, x=" << c.data().frame(40).points().point(0).x() << std::endl;
    } else if (which == 1) {   // Points::point(p, idx) beyond the end with p an element
        ezc3d::DataNS::Points3dNS::Points pts; ezc3d::DataNS::Points3dNS::Point p; p.name("a"); p.x(3); pts.point(p);
        pts.point(pts.point(0), 50);
        std::cout << pts.nbPoints() << " " << pts.point(50).x() << std::endl;
    } else if (which == 2) {   // Data::frame(f, idx) beyond the end with f an element (pinned code too)
        ezc3d::DataNS::Data d; ezc3d::DataNS::Frame f; ezc3d::DataNS::Points3dNS::Points pts; ezc3d::DataNS::Points3dNS::Point p; p.name("a"); p.x(3); pts.point(p); f.add(pts);
        d.frame(f);
        d.frame(d.frame(0), 50);
        std::cout << d.nbFrames() << " " << d.frame(50).points().point(0).x() << std::endl;
    }
    return 0;
}
