#include "ezc3d.h"
#include <iostream>
int main(){ ezc3d::ParametersNS::GroupNS::Parameter p("X"); 
  try{ p.set(std::vector<int>{}, {65536, 65536}); std::cout<<"accepted an empty value list for a 65536x65536 shape\n"; return 1;}catch(std::range_error&){ std::cout<<"refused\n"; return 0;} }
