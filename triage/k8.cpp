// Replay of known finding K8 (C16): work is proportional to the declared counts, not to the file size.
// Vicon.c3d is cut right after its parameter section (no data at all) and two INT parameter values
// (4 bytes) are overwritten: POINT:FRAMES = 32767, POINT:USED = 2000.  Loading the ~11 KB file is then
// expected to take time/memory for 65 million points.
#include "ezc3d.h"
#include <iostream>
#include <fstream>
#include <cstring>
#include <unistd.h>
#include <sys/wait.h>
#include <sys/resource.h>
static std::vector<char> slurp(const std::string&p){std::ifstream f(p,std::ios::binary);return std::vector<char>((std::istreambuf_iterator<char>(f)),std::istreambuf_iterator<char>());}
static void spit(const std::string&p,const std::vector<char>&v){std::ofstream f(p,std::ios::binary);f.write(v.data(),v.size());}
static size_t findParamInGroup(const std::vector<char>&v,int gid,const char*name){ size_t base=512*((unsigned char)v[0]-1); size_t p=base+4; size_t n=strlen(name);
  while(true){ int nl=(signed char)v[p]; if(nl==0) break; int id=(signed char)v[p+1]; size_t off=p+2+abs(nl); if(id==gid && (size_t)abs(nl)==n && !memcmp(&v[p+2],name,n)) return p; unsigned nxt=(unsigned char)v[off]|((unsigned char)v[off+1]<<8); if(!nxt) break; p=off+nxt; } return 0; }
static int groupId(const std::vector<char>&v,const char*name){ size_t base=512*((unsigned char)v[0]-1); size_t p=base+4; size_t n=strlen(name);
  while(true){ int nl=(signed char)v[p]; if(nl==0) break; int id=(signed char)v[p+1]; size_t off=p+2+abs(nl); if(id<0 && (size_t)abs(nl)==n && !memcmp(&v[p+2],name,n)) return -id; unsigned nxt=(unsigned char)v[off]|((unsigned char)v[off+1]<<8); if(!nxt) break; p=off+nxt; } return 0; }
int main(){
  auto v=slurp("/repo/test/c3dFiles/Vicon.c3d"); int g=groupId(v,"POINT");
  size_t nblocks=(unsigned char)v[512+2]; v.resize(512*(1+nblocks));            // drop the whole data section
  for (auto kv : {std::make_pair("FRAMES",32767), std::make_pair("USED",2000)}){ size_t p=findParamInGroup(v,g,kv.first); size_t t=p+2+strlen(kv.first)+2; v[t+2]=(char)(kv.second&0xff); v[t+3]=(char)(kv.second>>8); }
  spit("/tmp/triage/k8.c3d",v); std::cout<<"file size "<<v.size()<<" bytes, declares 32767 frames x 2000 points\n";
  pid_t pid=fork();
  if(!pid){ struct rlimit rl={2ul<<30,2ul<<30}; setrlimit(RLIMIT_AS,&rl); alarm(10); try{ ezc3d::c3d c("/tmp/triage/k8.c3d"); std::cout<<"loaded "<<c.data().nbFrames()<<" frames\n"; }catch(std::exception&e){ std::cout<<"exception: "<<e.what()<<"\n"; } std::cout.flush(); _exit(0);} 
  int st; waitpid(pid,&st,0);
  if(WIFSIGNALED(st)){ std::cout<<"loader still running after 10 s (or out of a 2 GiB address space): killed by signal "<<WTERMSIG(st)<<" -> DEFECT shown\n"; return 1;}
  std::cout<<"finished within limits\n"; return 0; }
