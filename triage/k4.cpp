// Replays of known finding K4 (C10): the updater throws after the mutator has already stored.
#include "ezc3d.h"
#include <iostream>
#include <unistd.h>
#include <sys/wait.h>
using namespace ezc3d;
typedef ParametersNS::GroupNS::Parameter Param;
template<class F> int child(F fn){ pid_t p=fork(); if(!p){ int r=2; try{ r=fn(); }catch(std::exception&e){ std::cout<<"   (unexpected exception: "<<e.what()<<")\n"; r=2;} std::cout.flush(); _exit(r);} int st; waitpid(p,&st,0); if(WIFSIGNALED(st)) return 3; return WEXITSTATUS(st);}
static void report(const char*id,int r){ std::cout<<id<<": "<<(r==0?"holds":(r==1?"DEFECT shown":(r==3?"CRASH":"inconclusive")))<<std::endl;}
int main(){
  report("K4 c3d::parameter -> updateHeader", child([]{ c3d c; Param p("USED"); p.set(3.5f); bool threw=false; try{ c.parameter("POINT",p);}catch(std::exception&e){ threw=true; std::cout<<"   threw: "<<e.what()<<"\n";}
     bool changed = c.parameters().group("POINT").parameter("USED").type()!=DATA_TYPE::INT; std::cout<<"   POINT:USED type changed: "<<changed<<"\n"; return (threw && changed)?1:0;}));
  report("K4 c3d::frame -> updateParameters (POINT:FRAMES holds a float after an earlier refused edit)", child([]{ c3d c; Param r("RATE"); r.set(100.0f); c.parameter("POINT",r); c.point("a");
     Param fr("FRAMES"); fr.set(2.0f); try{ c.parameter("POINT",fr);}catch(std::exception&){}
     DataNS::Frame f; DataNS::Points3dNS::Points pts; DataNS::Points3dNS::Point p; p.name("a"); pts.point(p); f.add(pts);
     size_t n=c.data().nbFrames(); bool threw=false; try{ c.frame(f);}catch(std::exception&e){ threw=true; std::cout<<"   threw: "<<e.what()<<"\n";}
     std::cout<<"   frames "<<n<<" -> "<<c.data().nbFrames()<<"\n"; return (threw && c.data().nbFrames()!=n)?1:0;}));
  report("K4 c3d::point(frames) -> updateParameters (loaded Optotrak file)", child([]{ c3d c("/repo/test/c3dFiles/Optotrak.c3d"); size_t n=c.data().frame(0).points().nbPoints(); bool threw=false; try{ c.point("brand_new_point");}catch(std::exception&e){ threw=true; std::cout<<"   threw: "<<e.what()<<"\n";}
     std::cout<<"   points per frame "<<n<<" -> "<<c.data().frame(0).points().nbPoints()<<"\n"; return (threw && c.data().frame(0).points().nbPoints()!=n)?1:0;}));
  report("K4 c3d::analog(frames) -> updateParameters (ANALOG:SCALE replaced by an int parameter)", child([]{ c3d c; Param r("RATE"); r.set(100.0f); c.parameter("POINT",r); c.parameter("ANALOG",r);
     DataNS::Frame f; DataNS::AnalogsNS::Analogs a; DataNS::AnalogsNS::SubFrame sf; DataNS::AnalogsNS::Channel ch; ch.name("c0"); sf.channel(ch); a.subframe(sf); f.add(a); c.analog("c0"); c.frame(f);
     Param s("SCALE"); s.set(std::vector<int>{1}); c.parameter("ANALOG",s);
     size_t n=c.data().frame(0).analogs().subframe(0).nbChannels(); bool threw=false; try{ c.analog("c1");}catch(std::exception&e){ threw=true; std::cout<<"   threw: "<<e.what()<<"\n";}
     std::cout<<"   channels "<<n<<" -> "<<c.data().frame(0).analogs().subframe(0).nbChannels()<<"\n"; return (threw && c.data().frame(0).analogs().subframe(0).nbChannels()!=n)?1:0;}));
  return 0;
}
