// Replays of known finding K5 (C13, C16): element [0] of a mandatory parameter is read without an
// emptiness check.  (a) through the public API, (b) through a file with 4-6 overwritten bytes.
#include "ezc3d.h"
#include <iostream>
#include <fstream>
#include <cstring>
#include <unistd.h>
#include <sys/wait.h>
using namespace ezc3d;
typedef ParametersNS::GroupNS::Parameter Param;
template<class F> int child(F fn){ pid_t p=fork(); if(!p){ int r=0; try{ r=fn(); }catch(std::exception&e){ std::cout<<"   (exception: "<<e.what()<<")\n"; r=0;} std::cout.flush(); _exit(r);} int st; waitpid(p,&st,0); if(WIFSIGNALED(st)) return 100+WTERMSIG(st); return WEXITSTATUS(st);}
static void report(const std::string&id,int r){ std::cout<<id<<": "<<(r==0?"no crash":(r>=100?"CRASH (signal "+std::to_string(r-100)+")":"?"))<<std::endl;}
static std::vector<char> slurp(const std::string&p){std::ifstream f(p,std::ios::binary);return std::vector<char>((std::istreambuf_iterator<char>(f)),std::istreambuf_iterator<char>());}
static void spit(const std::string&p,const std::vector<char>&v){std::ofstream f(p,std::ios::binary);f.write(v.data(),v.size());}
static size_t findParamInGroup(const std::vector<char>&v,int gid,const char*name){ size_t base=512*((unsigned char)v[0]-1); size_t p=base+4; size_t n=strlen(name);
  while(true){ int nl=(signed char)v[p]; if(nl==0) break; int id=(signed char)v[p+1]; size_t off=p+2+abs(nl); if(id==gid && (size_t)abs(nl)==n && !memcmp(&v[p+2],name,n)) return p; unsigned nxt=(unsigned char)v[off]|((unsigned char)v[off+1]<<8); if(!nxt) break; p=off+nxt; } return 0; }
static int groupId(const std::vector<char>&v,const char*name){ size_t base=512*((unsigned char)v[0]-1); size_t p=base+4; size_t n=strlen(name);
  while(true){ int nl=(signed char)v[p]; if(nl==0) break; int id=(signed char)v[p+1]; size_t off=p+2+abs(nl); if(id<0 && (size_t)abs(nl)==n && !memcmp(&v[p+2],name,n)) return -id; unsigned nxt=(unsigned char)v[off]|((unsigned char)v[off+1]<<8); if(!nxt) break; p=off+nxt; } return 0; }
int main(){
  // (a) public API: an empty value is a legal parameter value; c3d::parameter -> updateHeader reads [0]
  for (const char* n : {"FRAMES","USED"}) report(std::string("API  updateHeader POINT:")+n+" empty", child([n]{ c3d c; Param p(n); p.set(std::vector<int>{}); c.parameter("POINT",p); return 0;}));
  report("API  updateHeader POINT:RATE empty", child([]{ c3d c; Param p("RATE"); p.set(std::vector<float>{}); c.parameter("POINT",p); return 0;}));
  report("API  updateHeader ANALOG:USED empty", child([]{ c3d c; Param p("USED"); p.set(std::vector<int>{}); c.parameter("ANALOG",p); return 0;}));
  report("API  updateHeader ANALOG:RATE empty (POINT:RATE 100, no data)", child([]{ c3d c; Param r("RATE"); r.set(100.0f); c.parameter("POINT",r); Param p("RATE"); p.set(std::vector<float>{}); c.parameter("ANALOG",p); return 0;}));
  report("API  c3d::frame ANALOG:RATE empty (data with sub-frames present)", child([]{ c3d c; Param r("RATE"); r.set(100.0f); c.parameter("POINT",r); c.parameter("ANALOG",r); c.analog("c0");
      DataNS::Frame f; DataNS::AnalogsNS::Analogs a; DataNS::AnalogsNS::SubFrame sf; DataNS::AnalogsNS::Channel ch; ch.name("c0"); sf.channel(ch); a.subframe(sf); f.add(a); c.frame(f);
      Param p("RATE"); p.set(std::vector<float>{}); c.parameter("ANALOG",p); std::cout<<"   (ANALOG:RATE emptied without complaint)\n"; std::cout.flush(); c.frame(f); return 0;}));
  // (b) damaged file: the scalar POINT:USED / FRAMES (type 2, 0 dims, 2 data bytes, desc len) rewritten in place as
  //     [1 dimension][dimension 0][description length 1][1 char]; POINT:RATE (6 bytes) as [1][0][3][3 chars]
  for (const char* n : {"USED","FRAMES","RATE"}) report(std::string("FILE Vicon.c3d with POINT:")+n+" overwritten to an empty array", child([n]{ auto v=slurp("/repo/test/c3dFiles/Vicon.c3d"); int g=groupId(v,"POINT"); size_t p=findParamInGroup(v,g,n); if(!p){std::cout<<"   not found\n"; return 0;}
      size_t t=p+2+strlen(n)+2; int type=(signed char)v[t]; size_t q=t+1; if(v[q]!=0){ std::cout<<"   not a scalar\n"; return 0;} int bytes=abs(type);
      v[q]=1; v[q+1]=0; v[q+2]=(char)(bytes-1+ (unsigned char)v[q+1+bytes]); // new description length = spare bytes + old description
      for(int i=0;i<bytes-1;++i) v[q+3+i]='x';
      spit("/tmp/triage/k5.c3d",v); c3d c("/tmp/triage/k5.c3d"); std::cout<<"   loaded\n"; return 0;}));
  return 0;
}
