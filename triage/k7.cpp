// Replays of the recorded findings K1, K2 (C03) and K7 (C17) against the real library.
// Each case builds content through the public API, saves it, and shows that the saved file does not
// describe the content held in memory (no exception was thrown by save).
#include "ezc3d.h"
#include <iostream>
#include <fstream>
#include <cstring>
#include <unistd.h>
#include <sys/wait.h>
using namespace ezc3d;
typedef ParametersNS::GroupNS::Parameter Param;
static std::vector<unsigned char> slurp(const std::string&p){std::ifstream f(p,std::ios::binary);return std::vector<unsigned char>((std::istreambuf_iterator<char>(f)),std::istreambuf_iterator<char>());}
template<class F> int child(F fn){ pid_t p=fork(); if(!p){ int r=2; try{ r=fn(); }catch(std::exception&e){ std::cout<<"   (exception: "<<e.what()<<")\n"; r=1;} std::cout.flush(); _exit(r);} int st; waitpid(p,&st,0); if(WIFSIGNALED(st)) return 3; return WEXITSTATUS(st);}
static void report(const char*id,int r){ std::cout<<id<<": "<<(r==0?"holds":(r==1?"DEFECT shown":(r==3?"CRASH":"?")))<<std::endl;}
static const char* F="/tmp/triage/k.c3d";
static unsigned word(const std::vector<unsigned char>&v,int w){return v[2*(w-1)]|(v[2*(w-1)+1]<<8);}
int main(){
  report("K1 header data-start word", child([]{ c3d c; c.write(F); auto v=slurp(F); unsigned hdr=word(v,9); c3d r(F); int ds=r.parameters().group("POINT").parameter("DATA_START").valuesAsInt()[0]; std::cout<<"   header word 9 = "<<hdr<<", POINT:DATA_START = "<<ds<<"\n"; return (int)hdr==ds?0:1;}));
  report("K2 scale word", child([]{ c3d c; c.write(F); auto v=slurp(F); float s; memcpy(&s,&v[12],4); std::cout<<"   bytes 12..15 = "<<std::hex<<(int)v[12]<<" "<<(int)v[13]<<" "<<(int)v[14]<<" "<<(int)v[15]<<std::dec<<" as REAL: "<<s<<"\n"; return (s<0)?0:1;}));
  // K7: truncating writes
  report("K7 POINT:USED 70000 -> header point count", child([]{ c3d c; Param p("USED"); p.set(70000); c.parameter("POINT",p); c.write(F); auto v=slurp(F); std::cout<<"   header word 2 = "<<word(v,2)<<" for 70000 points\n"; return word(v,2)==70000?0:1;}));
  report("K7 ANALOG:USED large -> header analog count", child([]{ c3d c; Param r("RATE"); r.set(100.0f); c.parameter("POINT",r); c.parameter("ANALOG",r); Param p("USED"); p.set(70000); c.parameter("ANALOG",p); c.write(F); auto v=slurp(F); std::cout<<"   header word 3 = "<<word(v,3)<<" for 70000 channels x 1\n"; return word(v,3)==70000?0:1;}));
  report("K7 POINT:FRAMES 70000 -> first/last frame", child([]{ c3d c; Param u("USED"); u.set(1); c.parameter("POINT",u); Param p("FRAMES"); p.set(70000); c.parameter("POINT",p); c.write(F); auto v=slurp(F); std::cout<<"   header words 4,5 = "<<word(v,4)<<","<<word(v,5)<<" for frames 1..70000\n"; return word(v,5)==70000?0:1;}));
  report("K7 sub-frames 70000 -> header word 10", child([]{ c3d c; Param r("RATE"); r.set(1.0f); c.parameter("POINT",r); Param a("RATE"); a.set(70000.0f); c.parameter("ANALOG",a); c.write(F); auto v=slurp(F); std::cout<<"   header word 10 = "<<word(v,10)<<" for 70000 samples per frame\n"; return word(v,10)==70000?0:1;}));
  report("K7 parameter blocks > 255 (block count and DATA_START)", child([]{ c3d c; for(int i=0;i<40;++i){ Param p("BIG"+std::to_string(i)); p.set(std::vector<float>(4000,1.f), {40,100}); c.parameter("BIGGROUP",p);} Param rt("RATE"); rt.set(100.0f); c.parameter("POINT",rt); c.point("a"); DataNS::Frame fr; DataNS::Points3dNS::Points pts; DataNS::Points3dNS::Point pt; pt.name("a"); pt.x(42); pts.point(pt); fr.add(pts); c.frame(fr); c.write(F); auto v=slurp(F); size_t sz=v.size(); std::cout<<"   file has "<<sz/512<<" blocks, parameter block count byte = "<<(int)v[512+2]<<"\n"; try{ c3d r(F); float x=r.data().frame(0).points().point(0).x(); int ds=r.parameters().group("POINT").parameter("DATA_START").valuesAsInt()[0]; std::cout<<"   reloaded x="<<x<<" POINT:DATA_START="<<ds<<"\n"; return (x==42.f && ds==(int)(sz/512))?0:1;}catch(std::exception&e){std::cout<<"   reload: "<<e.what()<<"\n"; return 1;} }));
  report("K7 group name of 130 characters", child([]{ c3d c; Param p("X"); p.set(1); std::string g(130,'G'); c.parameter(g,p); c.write(F); try{ c3d r(F); r.parameters().group(g); return 0;}catch(std::exception&e){ std::cout<<"   reload: "<<e.what()<<"\n"; return 1;} }));
  report("K7 more than 127 groups (group id byte)", child([]{ c3d c; for(int i=0;i<130;++i){ Param p("X"); p.set(i); c.parameter("G"+std::to_string(i),p);} c.write(F); try{ c3d r(F); return r.parameters().group("G129").parameter("X").valuesAsInt()[0]==129?0:1;}catch(std::exception&e){ std::cout<<"   reload: "<<e.what()<<"\n"; return 1;} }));
  report("K7 group record longer than 65535 bytes (next offset)", child([]{ c3d c; Param p("X"); p.set(1); std::string g(70000,'G'); c.parameter(g,p); c.write(F); try{ c3d r(F); r.parameters().group("FORCE_PLATFORM"); return r.parameters().nbGroups()>=4?0:1;}catch(std::exception&e){ std::cout<<"   reload: "<<e.what()<<"\n"; return 1;} }));
  report("K7 parameter name of 130 characters", child([]{ c3d c; std::string n(130,'N'); Param p(n); p.set(1); c.parameter("POINT",p); c.write(F); try{ c3d r(F); r.parameters().group("POINT").parameter(n); return 0;}catch(std::exception&e){ std::cout<<"   reload: "<<e.what()<<"\n"; return 1;} }));
  report("K7 parameter in group 130 (parameter id byte)", child([]{ c3d c; for(int i=0;i<130;++i){ Param p("X"); p.set(i); c.parameter("G"+std::to_string(i),p);} c.write(F); try{ c3d r(F); return r.parameters().group("G128").nbParameters()==1?0:1;}catch(std::exception&e){ std::cout<<"   reload: "<<e.what()<<"\n"; return 1;} }));
  report("K7 parameter with 300 dimensions (dimension count byte)", child([]{ c3d c; Param p("MANYDIMS"); p.set(std::vector<int>{7}, std::vector<size_t>(300,1)); c.parameter("POINT",p); c.write(F); try{ c3d r(F); return r.parameters().group("POINT").parameter("MANYDIMS").dimension().size()==300?0:1;}catch(std::exception&e){ std::cout<<"   reload: "<<e.what()<<"\n"; return 1;} }));
  report("K7 300 labels (dimension entry byte)", child([]{ c3d c; std::vector<std::string> l; for(int i=0;i<300;++i) l.push_back("L"+std::to_string(i)); Param p("MANY"); p.set(l); c.parameter("POINT",p); c.write(F); try{ c3d r(F); return r.parameters().group("POINT").parameter("MANY").valuesAsString().size()==300?0:1;}catch(std::exception&e){ std::cout<<"   reload: "<<e.what()<<"\n"; return 1;} }));
  report("K7 parameter description of 300 characters", child([]{ c3d c; Param p("D", std::string(300,'d')); p.set(1); c.parameter("POINT",p); c.write(F); try{ c3d r(F); return r.parameters().group("POINT").parameter("D").description().size()==300?0:1;}catch(std::exception&e){ std::cout<<"   reload: "<<e.what()<<"\n"; return 1;} }));
  report("K7 parameter record longer than 65535 bytes (next offset)", child([]{ c3d c; Param p("BIG"); p.set(std::vector<float>(20000,1.f), {200,100}); c.parameter("POINT",p); c.write(F); try{ c3d r(F); return r.parameters().group("POINT").parameter("BIG").valuesAsFloat().size()==20000 && r.parameters().nbGroups()>=3?0:1;}catch(std::exception&e){ std::cout<<"   reload: "<<e.what()<<"\n"; return 1;} }));
  report("K7 INT value 70000", child([]{ c3d c; Param p("V"); p.set(70000); c.parameter("POINT",p); c.write(F); c3d r(F); int v=r.parameters().group("POINT").parameter("V").valuesAsInt()[0]; std::cout<<"   reloaded "<<v<<"\n"; return v==70000?0:1;}));
  return 0;
}
