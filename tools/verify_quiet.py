#!/usr/bin/env python3
"""tools/verify_quiet.py <candidate dir with patch.diff meta.json> <name>
Confirms in the scratch worktree that a behaviour-preserving refactoring applies at /repo's HEAD,
compiles and passes the existing suite, then keeps it as /verif/seeded/<name>/ with kind=quiet."""
import json, os, shutil, subprocess, sys
cand, name = sys.argv[1], sys.argv[2]
WT = '/tmp/wt/verify'
def sh(cmd, cwd=None):
    r = subprocess.run(cmd, shell=True, cwd=cwd, capture_output=True, text=True, timeout=900)
    return r.returncode, r.stdout + r.stderr
head = subprocess.run(['git', '-C', '/repo', 'rev-parse', 'HEAD'], capture_output=True, text=True).stdout.strip()
if not os.path.exists(WT):
    sh('git -C /repo worktree add -q --detach %s HEAD && cp -r /repo/external/gtest/. %s/external/gtest/' % (WT, WT))
else:
    sh('git checkout -q -- . && git checkout -q --detach %s' % head, cwd=WT)
rc, out = sh('git apply %s/patch.diff' % cand, cwd=WT)
if rc:
    print('REJECTED: patch does not apply', out[-200:]); sys.exit(1)
rc, out = sh('cmake -S . -B _build -G Ninja -DBUILD_TESTS=ON >/dev/null 2>&1 && cmake --build _build 2>&1 | tail -3 && ctest --test-dir _build -j8 --timeout 900 2>&1 | tail -3', cwd=WT)
sh('git checkout -q -- .', cwd=WT)
if '100% tests passed' not in out:
    print('REJECTED: build/suite', out[-300:]); sys.exit(1)
dst = os.path.join('/verif/seeded', name)
os.makedirs(dst, exist_ok=True)
shutil.copy(os.path.join(cand, 'patch.diff'), dst)
meta = json.load(open(os.path.join(cand, 'meta.json')))
meta['kind'] = 'quiet'
meta['property'] = None
meta['confirmed'] = {'at_repo_head': head, 'how': 'tools/verify_quiet.py: applies, builds, existing suite passes; equivalence argued in why_equivalent and reviewed by hand when a check fired'}
json.dump(meta, open(os.path.join(dst, 'meta.json'), 'w'), indent=1)
print('KEPT as', dst)
