#!/usr/bin/env python3
"""regenerates /verif/MANIFEST.json from the table below (keeps it valid and consistent)"""
import json, os
HERE = os.path.dirname(os.path.dirname(os.path.abspath(__file__)))
TB = 'clang 14 parser/type checker/CFG builder; the closed std tables in rules/; the hand transcriptions in spec/; libstdc++ documented behaviour'
P = {
 'C15': dict(cat='other', tech='typestate analysis over the CFG + who-may-call rules (custom libTooling checker)',
   text='Path-sensitive typestate analysis (failed/dirty/open/throwing) of the output stream over every CFG path of c3d::write, every output event allowed to fail, plus who-may rules over the whole save call graph. Full claim: the quantifier over fault offsets is discharged by the path rule, not sampled.',
   note='Assumes libstdc++ reports short writes/ENOSPC/failed open/close through sticky stream state; allocation failure excluded. ' + TB, ref='4/C15'),
 'C18': dict(cat='other', tech='static-storage / foreign-static / non-reentrant-call inventory + per-object ownership rules (custom libTooling checker)',
   text='Shows the library creates no memory location reachable from two threads: no mutable static storage, no foreign mutable statics, no non-reentrant libc calls, all c3d working state allocated per object, c3d not copyable, no stored frame aliasing. Full claim under stated runtime assumptions.',
   note='Assumes allocator, iostream and file system are thread-safe per their specs; ::toupper reads a locale nobody writes. ' + TB, ref='4/C18'),
}
P['C08'] = dict(cat='other', tech='ownership / alias analysis of handle-holding classes over all call sites (custom libTooling checker)',
   text='Ownership analysis: payload classes are value-only; every handle write is a fresh allocation; no copy of an aliasing class (Frame, and classes holding it by value) lands in object-owned storage; no public method hands out a handle. Full claim at the structural level: the property is an ownership property.',
   note='Users of the documented const-bypass accessors are outside the property; C++11 vector::resize(n) value-initialises each element. ' + TB, ref='4/C08')
P['C11'] = dict(cat='other', tech='accessor inventory by signature shape + per-accessor discipline rules on AST/CFG, finite enumeration of the type enum; accessors and searches written another way (helpers, std algorithms, templates) are decided by walking the CFG on finite models (custom libTooling checker)',
   text='Every positional accessor is bounds-checked on the full-width unmodified index and translates to std::out_of_range; index-by-name functions are first-exact-match loops ending in std::invalid_argument; by-name accessors compose the two on one container; typed getters enumerated over all DATA_TYPE values; every name store is trimmed. Full claim except the text of messages.',
   note='Assumes std::vector::at and std::string::compare behave per the standard. ' + TB, ref='4/C11')
P['C14'] = dict(cat='other', tech='effect-set (purity), source-inventory (determinism), write-site classification with path-sensitive width evaluation (definedness), constructor definite-initialisation (custom libTooling checker)',
   text='Partial claim: decides the structural necessary conditions - save call graph is effect-free on anything that outlives the call, uses no nondeterministic source, every write(ptr,n) emits bytes of an initialised object at least n wide or exactly a string\'s characters, every constructor initialises every scalar member. Does not observe byte identity.',
   note='Assumes vector elements are initialised, written scalars have no padding, compiler enforces const. ' + TB, ref='4/C14')
P['C13'] = dict(cat='other', tech='new/delete pairing, buffer-contract polynomials, write-source classification, dangling-return and ownership rules, index-site inventory with guard idioms (custom libTooling checker)',
   text='Partial claim: decides necessary structural conditions of memory safety over all functions (allocation/deallocation form, buffer contracts at every caller, every index site guarded / invariant-justified / listed, no dangling returns, relocation-stable element classes). Does not decide heap safety of whole histories.',
   note='Allocation failure excluded; vector reallocation moves nothrow-movable elements. ' + TB, ref='4/C13')
CODEC = 'I/O-sequence extraction from the AST (callee splicing, polynomial widths, path-sensitive local values) matched against a hand transcription of the C3D layout (custom libTooling checker)'
P['C01'] = dict(cat='other', tech=CODEC + '; copy-completeness dataflow',
   text='Partial claim: writer and reader tables both agree with the layout table field by field (offset, width, member, encodings as inverse pairs), and every user-provided copy constructor is component-complete. Decides these necessary conditions of the round trip, not equality of values.',
   note='Trusts spec/c3d_layout.json. ' + TB, ref='4/C01')
P['C02'] = dict(cat='other', tech=CODEC + '; ordering and label-binding rules',
   text='Partial claim: the reader agrees with an independent transcription of the C3D layout (order, width, signedness, offset polynomials, loop nesting, record grammar, type map enumerated), labels are bound by position, the header is reconciled before the data is read. Does not compare decoded values with an independent decoder.',
   note='Trusts spec/c3d_layout.json (PDF could not be rendered offline; transcribed from the format definition). ' + TB, ref='4/C02')
P['C03'] = dict(cat='other', tech=CODEC + '; slot pairing, padding interval, header-synchronisation coverage via effect sets',
   text='Partial claim: the writer agrees with the layout table incl. in-memory source types; every blank slot is patched within its width and the stream restored; padding count in [1,512]; derived header words are all synchronised by updateHeader. Two genuine findings recorded (K1 data-start word, K2 scale word). Does not decide the patched numbers per alignment residue.',
   note='Trusts spec/c3d_layout.json. ' + TB, ref='4/C03')
P['C04'] = dict(cat='other', tech=CODEC + '; re-emission completeness via effect sets',
   text='Partial claim: everything a reader assigns is re-emitted (or listed as canonicalised), CHAR cells are written at the declared width in both branches, BYTE payload at its own width, id <-> position inverse with placeholders skipped. Does not decide equality of reloaded values.',
   note='Trusts spec/c3d_layout.json. ' + TB, ref='4/C04')
P['C12'] = dict(cat='other', tech='def-use closure of the REAL payload (types, conversions, arithmetic) + ' + CODEC,
   text='Partial claim: float payload path is copy-only and float-typed end to end, integer widths/signedness per field follow the layout table, raw bytes are zero-extended. The numeric correctness of hex2uint/hex2int over all bit patterns is declined (needs execution or a solver).',
   note='Assumes IEEE binary32 floats copied bit-exactly and a little-endian host. ' + TB, ref='4/C12')
P['C17'] = dict(cat='other', tech=CODEC + '; truncating-write rule with writers-of-member proofs and range-guard dominance',
   text='Partial claim: length/count fields are read with the format\'s signedness and written from full-length values (at-limit clause); every truncating write is proven to fit or must be range-guarded (beyond-limit clause): 16 genuine unguarded sites recorded as known findings (K7), any new one is a violation.',
   note='Trusts spec/c3d_layout.json. ' + TB, ref='4/C17')
P['C06'] = dict(cat='other', tech='finite-model walk of the CFG (A7) against the documented decision table + effect sets + loop normal form (custom libTooling checker)',
   text='Partial claim: the four indexed setters match the append/replace/extend table on every row of a finite (idx,size) model with unsigned semantics, touch only their own container and contain no loop; column adders append exactly once per stored frame/sub-frame with matching indices. Does not observe bit-for-bit equality of untouched frames.',
   note='Relies on the C08 no-aliasing result. ' + TB, ref='4/C06')
P['C07'] = dict(cat='other', tech='finite-model evaluation of guard prefixes over the CFG (A7) against a transcribed contract table; structural loop rules; catch-order analysis of the SWIG interface',
   text='Partial claim: on every row of a finite model of the compared quantities, must-refuse rows end in the documented exception class before any store and must-accept rows reach the store; label/duplicate rules hold structurally; the binding maps every thrown class to the documented scripting exception. Does not decide acceptance beyond the guard tables.',
   note='Trusts spec/api_contract.json. ' + TB, ref='4/C07')
P['C10'] = dict(cat='other', tech='nothing-after path rule on the event-level CFG with effect sets (A3) and may-throw summaries (A4) incl. validated-index, forall-guard and guard-subsumption discharge lemmas',
   text='Partial claim: in every public mutator, the typed setters and Group::parameter no explicit throw and no may-throw call is reachable after the first modification of the object, except the four updater-after-store instances recorded as known findings (K4, replayed). Does not take run-time snapshots.',
   note='Allocation failure excluded; std throwers from a closed table. ' + TB, ref='4/C10')
P['C05'] = dict(cat='other', tech='must-pass-through path rule with effect sets (updater reachability), finite-model walk of updateHeader against the sync table (A7), structural regeneration rules, type-level who-may-mutate rule',
   text='Partial claim: every public mutator reaches an updater after its last modification on every normal path; updateHeader copies each source parameter into its header field whenever they differ (6-row sync table on finite models); updateParameters regenerates counts and label-like lists one entry per element; nobody else can mutate; derived header getters/setters are a rescaling triple. Does not decide values for every interleaving.',
   note='Documented const-bypass accessors are outside the property. ' + TB, ref='4/C05')
P['C09'] = dict(cat='other', tech='effect sets (A3) against allowed sets, replace-or-append decision read off the syntax tree or walked on finite models, step-order path rule, validate-before-assign dominance (also through helpers), accumulator width rule (custom libTooling checker)',
   text='Partial claim: edit functions only append or assign the matched element (nothing erased/inserted/sorted), the replaced element is the exact-name match, c3d::parameter performs its steps in order, typed setters assign only after the consistency test with their own type constant and vector, the consistency products are accumulated in 64-bit unsigned arithmetic, lock toggles write one flag. The arithmetic of isDimensionConsistent as a predicate is not decided.',
   note='' + TB, ref='4/C09')
P['C16'] = dict(cat='other', tech='exception-discipline inventory, signed-to-unsigned length dataflow, index-site inventory restricted to the load call graph, recursion-scheme rule (custom libTooling checker)',
   text='Partial claim: only std::exception-derived classes can escape and nothing terminates; no signed file byte becomes a 32-bit unsigned length; every index site on the load path is guarded, justified or a listed finding (K5: unchecked [0] of mandatory parameters); recursion is bounded by the scheme. Time/memory proportional to file size is NOT decided (known finding K8, pinned by the suite).',
   note='Allocation failure surfaces as a standard exception. ' + TB, ref='4/C16')
NA = {
 'C19': 'compares compiled artefacts across optimisation levels / link kinds; not decidable from source without running the builds (DESIGN 4/C19)',
}
PENDING = 'rules not built yet in this session; will be claimed (or declined with a reason) when its check exists (DESIGN 9)'
ALL = ['C%02d' % i for i in range(1, 20)]
def main():
    checks = []
    for pid in ALL:
        if pid in P:
            d = P[pid]
            checks.append({
                'property_id': pid,
                'quick_cmd': './check %s --tier quick' % pid,
                'thorough_cmd': './check %s --tier thorough' % pid,
                'evidence_file': 'evidence/%s.json' % pid,
                'replay_cmd_template': './check %s --replay {path}' % pid,
                'engine': 'c3dfacts+rules',
                'level_claimed': {'category': d['cat'], 'text': d['text'], 'design_ref': 'DESIGN.md ' + d['ref']},
                'level_note': d['note'],
                'technique': d['tech'],
            })
    na = [{'property_id': k, 'reason': v} for k, v in NA.items()]
    for pid in ALL:
        if pid not in P and pid not in NA:
            na.append({'property_id': pid, 'reason': PENDING})
    na.sort(key=lambda x: x['property_id'])
    m = {
        'version': 1,
        'setup_cmd': 'sh tools/c3dfacts/build.sh',
        'hooks': {
            'guard': 'EZC3D_VERIF',
            'enable': 'no hooks: the checks read /repo\'s sources through a libTooling extractor; nothing in /repo is instrumented or annotated',
            'baseline_off_cmd': 'cmake -S /repo -B /repo/_build -G Ninja -DBUILD_TESTS=ON >/dev/null && cmake --build /repo/_build >/dev/null && ctest --test-dir /repo/_build -j8 --timeout 900',
            'source_commits': [],
            'add_only': True,
        },
        'engines': [{'name': 'c3dfacts+rules', 'path': 'tools/c3dfacts, rules/',
                     'serves_properties': sorted(P), 'kind_free_text': 'clang-14 libTooling fact extractor (AST + CFG as JSON) and repository-specific python rules: typestate, path, dataflow, effect, codec-table and inventory analyses'}],
        'checks': checks,
        'not_applicable': na,
        'notes': 'All checks are static analyses of /repo\'s current sources (re-extracted on every run, cache keyed by content hash). exit 2 + UNDECIDED = the analysis could not be carried out on this tree (never a violation). Genuine defects found: fixed in /repo by "fix:" commits or listed in known_findings.json.',
    }
    with open(os.path.join(HERE, 'MANIFEST.json'), 'w') as fh:
        json.dump(m, fh, indent=1)
if __name__ == '__main__':
    main()
