import sys, glob, os
sys.path.insert(0,'/verif/rules')
import facts, thorough, importlib
pids = sys.argv[1:]
for pid in pids:
    mod = importlib.import_module('p_' + pid.lower())
    for p in sorted(glob.glob('/verif/selftest/%s/*.patch' % pid)):
        st, msg, v = thorough.run_variant(mod, '/repo', p)
        kind = os.path.basename(p).split('-')[0]
        good = (kind == 'fire' and st == 'fired') or (kind == 'quiet' and st == 'silent')
        if not good or '-v' in sys.argv:
            print(pid, os.path.basename(p), st, msg, v[:1])
    print(pid, 'done')
