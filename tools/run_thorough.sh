#!/bin/sh
cd /verif
for c in C01 C02 C03 C04 C05 C06 C07 C08 C09 C10 C11 C12 C13 C14 C15 C16 C17 C18; do
  ./check $c --tier thorough > /tmp/thorough_$c.log 2>&1; echo "$c rc=$? $(tail -1 /tmp/thorough_$c.log)"
done
