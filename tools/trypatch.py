#!/usr/bin/env python3
"""tools/trypatch.py [--base DIR] patch.diff...  — apply each patch to a scratch copy of the sources (default
base: /repo's working tree) and run every property's quick rules on it; prints which fire / are
undecided.  Developer tool (never touches /repo)."""
import sys, os, importlib, shutil, json
V = os.path.dirname(os.path.dirname(os.path.abspath(__file__)))
sys.path.insert(0, os.path.join(V, 'rules'))
import facts, thorough, result
from result import VIOL, UNDEC
args = sys.argv[1:]
base = '/repo'
if args and args[0] == '--base':
    base = args[1]; args = args[2:]
verbose = '-v' in args
args = [a for a in args if a != '-v']
pids = ['C%02d' % i for i in range(1, 19)]
mods = {p: importlib.import_module('p_' + p.lower()) for p in pids}
for patch in args:
    d = thorough.scratch_copy(base)
    try:
        ok, msg = thorough.apply_patch(d, os.path.abspath(patch))
        if not ok:
            print(patch, 'PATCH FAILED', msg); continue
        try:
            prog = facts.load(d, use_cache=False)
        except facts.AnalysisBroken as e:
            print(patch, 'EXTRACTION FAILED', str(e)[:300]); continue
        fired, und = {}, {}
        for p in pids:
            try:
                r = mods[p].run(prog, 'quick')
            except facts.AnalysisBroken as e:
                und[p] = ['analysis broken: %s' % str(e)[:150]]; continue
            except Exception as e:
                und[p] = ['checker crashed: %r' % e]; continue
            known = [k for k in result.load_known() if k.get('property') == p and k.get('status') == 'open']
            v = ['%s: %s at %s: %s' % (o['rule'], o['instance'], o['where'].replace(d + '/', ''), o['detail'][:160]) for o in r.obs if o['verdict'] == VIOL and
                 result.is_known(o, known) is None]
            u = ['%s: %s: %s' % (o['rule'], o['instance'], o['detail'][:160]) for o in r.obs if o['verdict'] == UNDEC] + ['%s below minimum (%d < %d)' % m for m in r.minimums if m[1] < m[2]]
            if v: fired[p] = v
            elif u: und[p] = u
        print('%s fired=%s undecided=%s' % (patch, ','.join(fired) or '-', ','.join(und) or '-'))
        if verbose or True:
            for p, v in fired.items():
                for x in v[:2]: print('     F %s %s' % (p, x))
            for p, v in und.items():
                for x in v[:2]: print('     U %s %s' % (p, x))
    finally:
        shutil.rmtree(d, ignore_errors=True)
