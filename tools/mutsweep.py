#!/usr/bin/env python3
"""tools/mutsweep.py [-j N] [--every K] [--out FILE]  — developer tool.
Small syntactic mutants of /repo's src/*.cpp (comparison operators, +1/-1, a few constants), one
edit each.  Every mutant is built and run against the project's own suite in a private copy; for the
mutants that still compile AND pass the suite (the only interesting ones: the suite cannot tell them
from the original) every property's quick rules are run on the mutated sources.  Output: one JSON
line per surviving mutant with the checks that fire / are undecided.  Used to look for blind spots;
survivors that nothing reports are reviewed by hand (many are equivalent mutants)."""
import json, os, re, shutil, subprocess, sys, tempfile, importlib
from concurrent.futures import ProcessPoolExecutor
V = os.path.dirname(os.path.dirname(os.path.abspath(__file__)))
sys.path.insert(0, os.path.join(V, 'rules'))
REPO = '/repo'
PIDS = ['C%02d' % i for i in range(1, 19)]

OPS = [(r'(?<![<>=!-])<=(?!=)', '<'), (r'(?<![<>=!-])>=(?!=)', '>'), (r'(?<![<>=!+\-*/|&])==(?!=)', '!='), (r'(?<![<>=!])!=(?!=)', '=='),
       (r'(?<![<>=!\-])<(?![<=])', '<='), (r'(?<![<>=!\-])>(?![>=])', '>='), (r'\+ ?1\b', '- 1'), (r'- ?1\b', '+ 1'), (r'&&', '||'), (r'\|\|', '&&')]


def mutants(every):
    out = []
    k = 0
    for fn in sorted(os.listdir(os.path.join(REPO, 'src'))):
        if not fn.endswith('.cpp'):
            continue
        lines = open(os.path.join(REPO, 'src', fn)).read().split('\n')
        for ln, line in enumerate(lines):
            st = line.strip()
            if not st or st.startswith('//') or st.startswith('#') or st.startswith('*') or st.startswith('///') or 'std::cout' in line or 'template' in line or '->' in line and '<' not in line:
                continue
            code = line.split('//')[0]
            if '"' in code and ('throw' in code or '+ "' in code or '<< "' in code):
                continue
            for pat, rep in OPS:
                for m in re.finditer(pat, code):
                    # skip template brackets / includes / stream operators
                    seg = code[max(0, m.start() - 25):m.end() + 25]
                    if rep in ('<=', '>=', '<', '>') and ('<' in pat or '>' in pat):
                        if re.search(r'(vector|shared_ptr|static_cast|reinterpret_cast|basic_string|<std::|std::\w+<|template|unique_ptr|const_cast)\s*<?', seg) or '>>' in seg or '<<' in seg or '->' in seg:
                            continue
                    k += 1
                    if k % every:
                        continue
                    new = code[:m.start()] + rep + code[m.end():] + line[len(code):]
                    out.append({'file': 'src/' + fn, 'line': ln + 1, 'old': line, 'new': new, 'op': '%s -> %s' % (m.group(0), rep)})
    return out


CONSTS = {'0': ['1'], '1': ['0', '2'], '2': ['1', '4'], '3': ['2', '4'], '4': ['2', '8'], '8': ['4'], '16': ['8'], '255': ['256', '127'], '256': ['255', '512'], '512': ['256', '511'],
          '127': ['128'], '128': ['127', '256'], '18': ['17'], '9': ['8', '10'], '80': ['84'], '84': ['80']}


def mutants2(every):
    """second operator set: statement deletion, guard removal, integer constants"""
    out = []
    k = 0
    for fn in sorted(os.listdir(os.path.join(REPO, 'src'))):
        if not fn.endswith('.cpp'):
            continue
        lines = open(os.path.join(REPO, 'src', fn)).read().split('\n')
        for ln, line in enumerate(lines):
            st = line.strip()
            if not st or st.startswith('//') or st.startswith('#') or st.startswith('*') or 'std::cout' in line:
                continue
            code = line.split('//')[0].rstrip()
            cands = []
            ind = line[:len(line) - len(line.lstrip())]
            # (a) delete an expression statement: call / assignment / increment on one line
            if re.match(r'^\s*(\+\+|--)?[\w\.\[\]:>\-\(\)\*]+\s*(=|\+=|-=|\*=|/=)\s*[^=].*;$', code) and not re.match(r'^\s*(const |auto |size_t |int |float |double |bool |char |std::|ezc3d::\w+(::\w+)* &?\w+\s*=|unsigned )', code) \
               or re.match(r'^\s*[\w\.:>\-\[\]\(\)]+\((.*)\);$', code) and not re.match(r'^\s*(return|throw|delete|const |std::\w+(<.*>)? \w+\()', code) \
               or re.match(r'^\s*(\+\+|--)\w+;$', code) or re.match(r'^\s*\w+(\+\+|--);$', code):
                cands.append((ind + ';', 'delete statement'))
            # (b) disable a guard whose consequence (next line) is a throw / return / break / continue
            nxt = lines[ln + 1].strip() if ln + 1 < len(lines) else ''
            m = re.match(r'^(\s*(?:else )?if \()(.*)\)(\s*\{?)$', code)
            if m and (nxt.startswith('throw') or nxt.startswith('return') or nxt.startswith('break') or nxt.startswith('continue')):
                cands.append((m.group(1) + 'false && (' + m.group(2) + '))' + m.group(3), 'guard disabled'))
            # (c) integer constants
            if '"' not in code:
                for m in re.finditer(r'(?<![\w\.])(\d+)(?![\w\.])', code):
                    for rep in CONSTS.get(m.group(1), []):
                        cands.append((code[:m.start()] + rep + code[m.end():], 'const %s -> %s' % (m.group(1), rep)))
            for new, op in cands:
                k += 1
                if k % every:
                    continue
                out.append({'file': 'src/' + fn, 'line': ln + 1, 'old': line, 'new': new, 'op': op})
    return out


SWAPS = [('readInt(', 'readUint('), ('readUint(', 'readInt('), ('DATA_TYPE::BYTE', 'DATA_TYPE::WORD'), ('DATA_TYPE::WORD', 'DATA_TYPE::BYTE'),
         ('_firstFrame', '_lastFrame'), ('_lastFrame', '_firstFrame'), ('nb3dPoints', 'nbAnalogs'), ('nbAnalogs()', 'nb3dPoints()'), ('"POINT"', '"ANALOG"'), ('"ANALOG"', '"POINT"'),
         ('"USED"', '"FRAMES"'), ('"FRAMES"', '"USED"'), ('"LABELS"', '"DESCRIPTIONS"'), ('"RATE"', '"USED"'), ('std::ios::beg', 'std::ios::cur'), ('std::ios::cur', 'std::ios::beg'),
         ('.x(', '.y('), ('.z(', '.residual('), ('_data[0]', '_data[1]'), ('_data[3]', '_data[2]'), ('nbSubframes()', 'nbChannels()'), ('_nbAnalogByFrame', '_nbAnalogsMeasurement'),
         ('valuesAsInt()', 'valuesAsByte()'), ('DATA_TYPE::INT', 'DATA_TYPE::BYTE'), ('DATA_TYPE::FLOAT', 'DATA_TYPE::INT'), ('_param_data_int', '_param_data_float'),
         ('invalid_argument', 'runtime_error'), ('out_of_range', 'invalid_argument'), ('range_error', 'invalid_argument'), ('toUpper(', '('), ('abs(', '('),
         ('1*ezc3d', '2*ezc3d'), ('2*ezc3d', '1*ezc3d'), ('size_t', 'int'), ('unsigned int', 'int'), ('float', 'double'), (' const', ''), ('idx+1', 'idx'), ('i+1', 'i'), ('.back()', '.front()'),
         ('push_back', 'emplace_back'), ('std::string &', 'std::string '), ('Frame &', 'Frame ')]


def mutants3(every):
    """third operator set: an identifier / constant replaced by a sibling of the same kind"""
    out = []
    k = 0
    for fn in sorted(os.listdir(os.path.join(REPO, 'src'))):
        if not fn.endswith('.cpp'):
            continue
        lines = open(os.path.join(REPO, 'src', fn)).read().split('\n')
        inprint = False
        for ln, line in enumerate(lines):
            st = line.strip()
            if '::print()' in line:
                inprint = True
            elif line.startswith('}'):
                inprint = False
            if inprint or not st or st.startswith('//') or st.startswith('#') or st.startswith('*') or 'std::cout' in line:
                continue
            code = line.split('//')[0].rstrip()
            for a, b in SWAPS:
                pos = code.find(a)
                if pos < 0:
                    continue
                k += 1
                if k % every:
                    continue
                out.append({'file': 'src/' + fn, 'line': ln + 1, 'old': line, 'new': code[:pos] + b + code[pos + len(a):], 'op': '%s -> %s' % (a, b)})
    return out


def work(args):
    idx, mut, wdir = args
    src = os.path.join(wdir, mut['file'])
    orig = open(src).read()
    lines = orig.split('\n')
    if lines[mut['line'] - 1] != mut['old']:
        return idx, mut, 'stale', None
    lines[mut['line'] - 1] = mut['new']
    open(src, 'w').write('\n'.join(lines))
    try:
        r = subprocess.run('cmake --build _build 2>&1 | tail -15', shell=True, cwd=wdir, capture_output=True, text=True, timeout=900)
        if 'error' in r.stdout.lower() or 'FAILED' in r.stdout or 'build stopped' in r.stdout or r.returncode:
            return idx, mut, 'no-compile', None
        t = subprocess.run('timeout 120 ctest --test-dir _build --timeout 100 2>&1 | tail -3', shell=True, cwd=wdir, capture_output=True, text=True, timeout=300)
        if '100% tests passed' not in t.stdout:
            return idx, mut, 'killed-by-suite', None
        # survivor: run the checks on the mutated sources
        import facts, result
        from result import VIOL, UNDEC
        sc = tempfile.mkdtemp(prefix='ezc3d-mut-')
        try:
            for sub in ('src', 'include', 'binding'):
                shutil.copytree(os.path.join(wdir, sub), os.path.join(sc, sub))
            shutil.copy(os.path.join(wdir, 'CMakeLists.txt'), sc)
            try:
                prog = facts.load(sc, use_cache=False)
            except Exception as e:
                return idx, mut, 'extract-failed', None
            fired, und = {}, {}
            for p in PIDS:
                mod = importlib.import_module('p_' + p.lower())
                try:
                    rr = mod.run(prog, 'quick')
                except Exception as e:
                    und[p] = ['crash %r' % e]
                    continue
                known = [k for k in result.load_known() if k.get('property') == p and k.get('status') == 'open']
                v = ['%s: %s: %s' % (o['rule'], o['instance'][:60], o['detail'][:140]) for o in rr.obs if o['verdict'] == VIOL and result.is_known(o, known) is None]
                u = ['%s: %s' % (o['rule'], o['instance'][:60]) for o in rr.obs if o['verdict'] == UNDEC] + ['%s below minimum' % m[0] for m in rr.minimums if m[1] < m[2]]
                if v:
                    fired[p] = v[:1]
                elif u:
                    und[p] = u[:1]
            return idx, mut, 'survived', {'fired': fired, 'undecided': und}
        finally:
            shutil.rmtree(sc, ignore_errors=True)
    except subprocess.TimeoutExpired:
        return idx, mut, 'timeout', None
    finally:
        open(src, 'w').write(orig)


def main():
    a = sys.argv[1:]
    jobs, every, outp, gen = 8, 3, '/tmp/mutsweep.jsonl', mutants
    while a:
        if a[0] == '-j':
            jobs = int(a[1]); a = a[2:]
        elif a[0] == '--every':
            every = int(a[1]); a = a[2:]
        elif a[0] == '--set2':
            gen = mutants2; a = a[1:]
        elif a[0] == '--set3':
            gen = mutants3; a = a[1:]
        elif a[0] == '--out':
            outp = a[1]; a = a[2:]
        else:
            a = a[1:]
    muts = gen(every)
    print('%d mutants' % len(muts), flush=True)
    # one private copy (with its own build directory) per worker
    base = tempfile.mkdtemp(prefix='ezc3d-mutsweep-')
    wdirs = []
    try:
        for j in range(jobs):
            d = os.path.join(base, 'w%d' % j)
            subprocess.run(['git', '-C', REPO, 'worktree', 'add', '-q', '--detach', d, 'HEAD'], check=True)
            shutil.copytree(os.path.join(REPO, 'external', 'gtest'), os.path.join(d, 'external', 'gtest'), dirs_exist_ok=True)
            wdirs.append(d)
        def prep(d):
            return subprocess.run('cmake -S . -B _build -G Ninja -DBUILD_TESTS=ON >/dev/null 2>&1 && cmake --build _build 2>&1 | tail -1', shell=True, cwd=d, capture_output=True, text=True).stdout
        from concurrent.futures import ThreadPoolExecutor
        with ThreadPoolExecutor(max_workers=jobs) as tp:
            list(tp.map(prep, wdirs))
        # static partition: mutant i goes to worker i % jobs, processed sequentially inside the worker
        import multiprocessing as mp
        def run_part(j, q):
            for i, m in enumerate(muts):
                if i % jobs == j:
                    q.put(work((i, m, wdirs[j])))
            q.put(None)
        q = mp.Queue()
        procs = [mp.Process(target=run_part, args=(j, q)) for j in range(jobs)]
        for p in procs:
            p.start()
        done = 0
        stats = {}
        with open(outp, 'w') as fh:
            while done < jobs:
                r = q.get()
                if r is None:
                    done += 1
                    continue
                idx, mut, status, res = r
                stats[status] = stats.get(status, 0) + 1
                if status == 'survived':
                    rec = {'mutant': '%s:%d %s' % (mut['file'], mut['line'], mut['op']), 'old': mut['old'].strip(), 'new': mut['new'].strip(), 'fired': res['fired'], 'undecided': res['undecided']}
                    fh.write(json.dumps(rec) + '\n')
                    fh.flush()
                    print('SURVIVOR %-40s fired=%s undecided=%s' % (rec['mutant'], ','.join(res['fired']) or '-', ','.join(res['undecided']) or '-'), flush=True)
        for p in procs:
            p.join()
        print('stats', stats)
    finally:
        for d in wdirs:
            subprocess.run(['git', '-C', REPO, 'worktree', 'remove', '--force', d])
        shutil.rmtree(base, ignore_errors=True)


if __name__ == '__main__':
    main()
