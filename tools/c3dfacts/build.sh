#!/bin/sh
# builds the fact extractor (libTooling, clang 14); ~15 s
set -e
cd "$(dirname "$0")"
if [ -x c3dfacts ] && [ c3dfacts -nt c3dfacts.cc ]; then exit 0; fi
clang++ $(llvm-config-14 --cxxflags) -fno-rtti -O1 c3dfacts.cc -o c3dfacts.tmp \
  /usr/lib/llvm-14/lib/libclang-cpp.so.14 /usr/lib/llvm-14/lib/libLLVM-14.so
mv c3dfacts.tmp c3dfacts
