// c3dfacts — libTooling fact extractor for the ezc3d static checks.
//
// For one translation unit it writes a JSON file with
//   * every function that has a body in a file under the repository root (including implicit
//     special members that Sema defined), as a compact expression tree plus the clang CFG
//     (setAllAlwaysAdd, implicit/temporary destructors, initialisers);
//   * every class defined under the root (fields, bases, methods, special-member facts);
//   * every variable with static storage duration defined under the root.
// The rule layer (python) never sees source text; everything it matches on comes from here.
//
// usage: c3dfacts --root=/repo --out=facts.json file.cpp -- <compile flags>

#include "clang/AST/ASTConsumer.h"
#include "clang/AST/ASTContext.h"
#include "clang/AST/DeclCXX.h"
#include "clang/AST/ExprCXX.h"
#include "clang/AST/RecursiveASTVisitor.h"
#include "clang/AST/StmtCXX.h"
#include "clang/Analysis/CFG.h"
#include "clang/Frontend/CompilerInstance.h"
#include "clang/Frontend/FrontendAction.h"
#include "clang/Index/USRGeneration.h"
#include "clang/Tooling/CommonOptionsParser.h"
#include "clang/Tooling/Tooling.h"
#include "llvm/Support/CommandLine.h"
#include "llvm/Support/JSON.h"
#include "llvm/Support/raw_ostream.h"

#include <map>
#include <set>
#include <string>
#include <vector>

using namespace clang;
using namespace clang::tooling;

static llvm::cl::OptionCategory Cat("c3dfacts options");
static llvm::cl::opt<std::string> Root("root", llvm::cl::desc("repository root"),
                                       llvm::cl::init("/repo"), llvm::cl::cat(Cat));
static llvm::cl::opt<std::string> Out("out", llvm::cl::desc("output json"),
                                      llvm::cl::Required, llvm::cl::cat(Cat));

namespace {

std::string usrOf(const Decl *D) {
  llvm::SmallString<128> Buf;
  if (!D || index::generateUSRForDecl(D, Buf))
    return "";
  return std::string(Buf.str());
}

struct Ctx {
  ASTContext *AC = nullptr;
  SourceManager *SM = nullptr;
  PrintingPolicy PP{LangOptions()};
  std::string root;

  std::string fileOf(SourceLocation L) const {
    if (L.isInvalid())
      return "";
    L = SM->getExpansionLoc(L);
    PresumedLoc P = SM->getPresumedLoc(L);
    if (P.isInvalid())
      return "";
    return P.getFilename();
  }
  unsigned lineOf(SourceLocation L) const {
    if (L.isInvalid())
      return 0;
    return SM->getExpansionLineNumber(L);
  }
  unsigned colOf(SourceLocation L) const {
    if (L.isInvalid())
      return 0;
    return SM->getExpansionColumnNumber(L);
  }
  bool inRepo(SourceLocation L) const {
    std::string F = fileOf(L);
    return F.size() > root.size() && F.compare(0, root.size(), root) == 0 &&
           F[root.size()] == '/';
  }
  bool inRepo(const Decl *D) const { return D && inRepo(D->getLocation()); }

  std::string typeStr(QualType T) const {
    if (T.isNull())
      return "";
    return T.getCanonicalType().getAsString(PP);
  }
  // width in bits and a one-letter class for scalar types
  void typeAttrs(llvm::json::OStream &J, QualType T) const {
    if (T.isNull())
      return;
    QualType C = T.getCanonicalType().getNonReferenceType();
    const char *cls = "o";
    uint64_t w = 0;
    if (C->isBooleanType())
      cls = "b";
    else if (C->isEnumeralType())
      cls = "e";
    else if (C->isFloatingType())
      cls = "f";
    else if (C->isSignedIntegerType())
      cls = "s";
    else if (C->isUnsignedIntegerType())
      cls = "u";
    else if (C->isPointerType())
      cls = "p";
    if (cls[0] != 'o' && !C->isIncompleteType() && !C->isDependentType())
      w = AC->getTypeSize(C);
    J.attribute("tc", cls);
    if (w)
      J.attribute("tw", (int64_t)w);
  }
};

std::string qname(const NamedDecl *D) {
  if (!D)
    return "";
  std::string S;
  llvm::raw_string_ostream OS(S);
  D->printQualifiedName(OS);
  return OS.str();
}

// qualified name of the record a member belongs to, with template arguments
std::string recordName(const Ctx &C, const CXXRecordDecl *R) {
  if (!R)
    return "";
  return C.typeStr(C.AC->getRecordType(R));
}

struct FuncEmitter {
  Ctx &C;
  llvm::json::OStream &J;
  std::map<const Stmt *, int> ids;
  std::map<const Decl *, int> declIds;
  std::vector<const Stmt *> order;
  std::map<const Stmt *, int> parent;

  FuncEmitter(Ctx &C, llvm::json::OStream &J) : C(C), J(J) {}

  int idOf(const Stmt *S) {
    if (!S)
      return -1;
    auto It = ids.find(S);
    if (It != ids.end())
      return It->second;
    int N = (int)ids.size();
    ids[S] = N;
    order.push_back(S);
    return N;
  }
  int declId(const Decl *D) {
    auto It = declIds.find(D);
    if (It != declIds.end())
      return It->second;
    int N = (int)declIds.size();
    declIds[D] = N;
    return N;
  }

  void number(const Stmt *S, int par) {
    if (!S)
      return;
    if (ids.count(S))
      return; // shared sub-tree (e.g. OpaqueValueExpr source)
    int me = idOf(S);
    parent[S] = par;
    for (const Stmt *Ch : S->children())
      number(Ch, me);
    if (auto *L = dyn_cast<LambdaExpr>(S))
      number(L->getBody(), me);
  }

  void calleeAttrs(const FunctionDecl *FD) {
    if (!FD)
      return;
    J.attributeObject("callee", [&] {
      J.attribute("qname", qname(FD));
      J.attribute("name", FD->getDeclName().getAsString());
      J.attribute("usr", usrOf(FD->getCanonicalDecl()));
      J.attribute("inrepo", C.inRepo(FD));
      J.attribute("ret", C.typeStr(FD->getReturnType()));
      J.attribute("nparams", (int64_t)FD->getNumParams());
      J.attributeArray("ptypes", [&] {
        for (auto *P : FD->parameters())
          J.value(C.typeStr(P->getType()));
      });
      if (auto *MD = dyn_cast<CXXMethodDecl>(FD)) {
        J.attribute("class", recordName(C, MD->getParent()));
        J.attribute("classq", qname(MD->getParent()));
        J.attribute("const", MD->isConst());
        J.attribute("virtual", MD->isVirtual());
        J.attribute("static", MD->isStatic());
      }
      if (auto *CD = dyn_cast<CXXConstructorDecl>(FD)) {
        J.attribute("copy", CD->isCopyConstructor());
        J.attribute("move", CD->isMoveConstructor());
        J.attribute("default", CD->isDefaultConstructor());
        J.attribute("implicit", CD->isImplicit());
      }
      if (auto *MD = dyn_cast<CXXMethodDecl>(FD)) {
        if (MD->isCopyAssignmentOperator())
          J.attribute("copyassign", true);
        if (MD->isMoveAssignmentOperator())
          J.attribute("moveassign", true);
      }
    });
  }

  void varAttrs(const VarDecl *VD) {
    J.attribute("id", (int64_t)declId(VD));
    J.attribute("name", VD->getNameAsString());
    J.attribute("type", C.typeStr(VD->getType()));
    C.typeAttrs(J, VD->getType());
    const char *dk = "local";
    if (isa<ParmVarDecl>(VD))
      dk = "param";
    else if (VD->isStaticLocal())
      dk = "staticlocal";
    else if (VD->hasGlobalStorage())
      dk = "global";
    J.attribute("dk", dk);
    if (VD->getType()->isReferenceType())
      J.attribute("isref", true);
  }

  void emitNode(const Stmt *S) {
    J.object([&] {
      J.attribute("id", (int64_t)ids[S]);
      J.attribute("k", S->getStmtClassName());
      J.attribute("p", (int64_t)parent[S]);
      J.attribute("line", (int64_t)C.lineOf(S->getBeginLoc()));
      J.attribute("col", (int64_t)C.colOf(S->getBeginLoc()));
      J.attribute("eline", (int64_t)C.lineOf(S->getEndLoc()));
      J.attributeArray("ch", [&] {
        for (const Stmt *Ch : S->children())
          if (Ch)
            J.value((int64_t)ids[Ch]);
      });
      if (auto *E = dyn_cast<Expr>(S)) {
        J.attribute("t", C.typeStr(E->getType()));
        C.typeAttrs(J, E->getType());
        J.attribute("vc", E->isLValue() ? "l" : (E->isXValue() ? "x" : "r"));
        // constant folding of integral expressions
        if (!E->isValueDependent() && !E->getType().isNull() &&
            E->getType()->isIntegralOrEnumerationType()) {
          Expr::EvalResult R;
          if (E->EvaluateAsInt(R, *C.AC, Expr::SE_NoSideEffects)) {
            llvm::SmallString<32> B;
            R.Val.getInt().toString(B, 10);
            J.attribute("cv", B.str());
          }
        } else if (!E->isValueDependent() && !E->getType().isNull() &&
                   E->getType()->isRealFloatingType()) {
          llvm::APFloat F(0.0);
          if (E->EvaluateAsFloat(F, *C.AC, Expr::SE_NoSideEffects)) {
            llvm::SmallString<32> B;
            F.toString(B);
            J.attribute("cvf", B.str());
          }
        }
      }
      if (auto *DR = dyn_cast<DeclRefExpr>(S)) {
        const ValueDecl *D = DR->getDecl();
        J.attributeObject("decl", [&] {
          J.attribute("qname", qname(D));
          J.attribute("inrepo", C.inRepo(D));
          if (auto *VD = dyn_cast<VarDecl>(D)) {
            varAttrs(VD);
            if (VD->hasGlobalStorage())
              J.attribute("static_storage", true);
          } else if (auto *EC = dyn_cast<EnumConstantDecl>(D)) {
            J.attribute("dk", "enumconst");
            J.attribute("name", EC->getNameAsString());
          } else if (auto *FD = dyn_cast<FunctionDecl>(D)) {
            J.attribute("dk", "func");
            J.attribute("name", FD->getNameAsString());
            J.attribute("usr", usrOf(FD->getCanonicalDecl()));
          } else {
            J.attribute("dk", "other");
            J.attribute("name", D->getNameAsString());
          }
        });
      } else if (auto *ME = dyn_cast<MemberExpr>(S)) {
        const ValueDecl *D = ME->getMemberDecl();
        J.attribute("member", D->getNameAsString());
        J.attribute("arrow", ME->isArrow());
        J.attribute("mq", qname(D));
        if (auto *FD = dyn_cast<FieldDecl>(D)) {
          J.attribute("mk", "field");
          J.attribute("fclass", qname(FD->getParent()));
          J.attribute("ftype", C.typeStr(FD->getType()));
        } else if (isa<CXXMethodDecl>(D)) {
          J.attribute("mk", "method");
        } else {
          J.attribute("mk", "other");
        }
      } else if (auto *CE = dyn_cast<CallExpr>(S)) {
        calleeAttrs(CE->getDirectCallee());
        if (!CE->getDirectCallee())
          J.attribute("indirect", true);
        if (auto *OC = dyn_cast<CXXOperatorCallExpr>(S))
          J.attribute("op", getOperatorSpelling(OC->getOperator()));
        if (auto *MC = dyn_cast<CXXMemberCallExpr>(S)) {
          if (const Expr *Obj = MC->getImplicitObjectArgument())
            J.attribute("obj", (int64_t)ids[Obj]);
        }
        J.attributeArray("args", [&] {
          for (const Expr *A : CE->arguments())
            J.value((int64_t)ids[A]);
        });
      } else if (auto *CC = dyn_cast<CXXConstructExpr>(S)) {
        calleeAttrs(CC->getConstructor());
        J.attribute("elidable", CC->isElidable());
        J.attributeArray("args", [&] {
          for (const Expr *A : CC->arguments())
            J.value((int64_t)ids[A]);
        });
      } else if (auto *LE = dyn_cast<LambdaExpr>(S)) {
        // the lambda's own parameters (declaration order), so that nested lambdas can be told apart
        if (auto *OP = LE->getCallOperator()) {
          J.attributeArray("lparams", [&] {
            for (auto *P : OP->parameters())
              J.value((int64_t)declId(P));
          });
        }
      } else if (auto *IL = dyn_cast<IntegerLiteral>(S)) {
        llvm::SmallString<32> B;
        IL->getValue().toString(B, 10, false);
        J.attribute("v", B.str());
      } else if (auto *FL = dyn_cast<FloatingLiteral>(S)) {
        llvm::SmallString<32> B;
        FL->getValue().toString(B);
        J.attribute("v", B.str());
      } else if (auto *SL = dyn_cast<clang::StringLiteral>(S)) {
        if (SL->isAscii() || SL->isUTF8())
          J.attribute("v", SL->getString());
      } else if (auto *CL = dyn_cast<CharacterLiteral>(S)) {
        J.attribute("v", (int64_t)CL->getValue());
      } else if (auto *BL = dyn_cast<CXXBoolLiteralExpr>(S)) {
        J.attribute("v", BL->getValue());
      } else if (auto *UO = dyn_cast<UnaryOperator>(S)) {
        J.attribute("op", UnaryOperator::getOpcodeStr(UO->getOpcode()));
        if (UO->isPostfix())
          J.attribute("postfix", true);
      } else if (auto *BO = dyn_cast<BinaryOperator>(S)) {
        J.attribute("op", BO->getOpcodeStr());
        if (auto *CA = dyn_cast<CompoundAssignOperator>(S)) {
          J.attribute("comp_t", C.typeStr(CA->getComputationResultType()));
        }
      } else if (auto *CE2 = dyn_cast<CastExpr>(S)) {
        J.attribute("ck", CE2->getCastKindName());
        if (auto *EC = dyn_cast<ExplicitCastExpr>(S))
          J.attribute("written_t", C.typeStr(EC->getTypeAsWritten()));
      } else if (auto *NE = dyn_cast<CXXNewExpr>(S)) {
        J.attribute("array", NE->isArray());
        J.attribute("alloc_t", C.typeStr(NE->getAllocatedType()));
        if (NE->isArray() && NE->getArraySize() && *NE->getArraySize())
          J.attribute("arrsize", (int64_t)ids[*NE->getArraySize()]);
        if (NE->getInitializer())
          J.attribute("init", (int64_t)ids[NE->getInitializer()]);
        J.attribute("nplacement", (int64_t)NE->getNumPlacementArgs());
      } else if (auto *DE = dyn_cast<CXXDeleteExpr>(S)) {
        J.attribute("array", DE->isArrayForm());
        J.attribute("arg", (int64_t)ids[DE->getArgument()]);
      } else if (auto *TE = dyn_cast<CXXThrowExpr>(S)) {
        if (TE->getSubExpr()) {
          QualType T = TE->getSubExpr()->getType().getCanonicalType().getUnqualifiedType();
          J.attribute("throw_t", C.typeStr(T));
          // base classes, nearest first (so the rule layer needs no std hierarchy table for
          // what clang can see)
          J.attributeArray("throw_bases", [&] {
            if (auto *RD = T->getAsCXXRecordDecl()) {
              std::vector<const CXXRecordDecl *> W{RD};
              std::set<const CXXRecordDecl *> Seen;
              while (!W.empty()) {
                const CXXRecordDecl *R = W.back();
                W.pop_back();
                if (!R->hasDefinition())
                  continue;
                for (auto &B : R->getDefinition()->bases())
                  if (auto *BR = B.getType()->getAsCXXRecordDecl())
                    if (Seen.insert(BR).second) {
                      J.value(qname(BR));
                      W.push_back(BR);
                    }
              }
            }
          });
        } else {
          J.attribute("rethrow", true);
        }
      } else if (auto *DS = dyn_cast<DeclStmt>(S)) {
        J.attributeArray("decls", [&] {
          for (const Decl *D : DS->decls()) {
            if (auto *VD = dyn_cast<VarDecl>(D)) {
              J.object([&] {
                varAttrs(VD);
                if (VD->getInit())
                  J.attribute("init", (int64_t)ids[VD->getInit()]);
                const char *is = "none";
                if (VD->getInit()) {
                  switch (VD->getInitStyle()) {
                  case VarDecl::CInit: is = "c"; break;
                  case VarDecl::CallInit: is = "call"; break;
                  case VarDecl::ListInit: is = "list"; break;
                  default: break;
                  }
                }
                J.attribute("initstyle", is);
              });
            }
          }
        });
      } else if (auto *CS = dyn_cast<CXXCatchStmt>(S)) {
        if (CS->getExceptionDecl()) {
          QualType T = CS->getCaughtType().getCanonicalType().getNonReferenceType().getUnqualifiedType();
          J.attribute("catch_t", C.typeStr(T));
        } else {
          J.attribute("catch_all", true);
        }
        J.attribute("body", (int64_t)ids[CS->getHandlerBlock()]);
      } else if (auto *TS = dyn_cast<CXXTryStmt>(S)) {
        J.attribute("body", (int64_t)ids[TS->getTryBlock()]);
        J.attributeArray("handlers", [&] {
          for (unsigned i = 0; i < TS->getNumHandlers(); ++i)
            J.value((int64_t)ids[TS->getHandler(i)]);
        });
      } else if (auto *If = dyn_cast<IfStmt>(S)) {
        J.attribute("cond", (int64_t)ids[If->getCond()]);
        J.attribute("then", (int64_t)ids[If->getThen()]);
        if (If->getElse())
          J.attribute("else", (int64_t)ids[If->getElse()]);
      } else if (auto *Fo = dyn_cast<ForStmt>(S)) {
        if (Fo->getInit())
          J.attribute("init", (int64_t)ids[Fo->getInit()]);
        if (Fo->getCond())
          J.attribute("cond", (int64_t)ids[Fo->getCond()]);
        if (Fo->getInc())
          J.attribute("inc", (int64_t)ids[Fo->getInc()]);
        J.attribute("body", (int64_t)ids[Fo->getBody()]);
      } else if (auto *FR = dyn_cast<CXXForRangeStmt>(S)) {
        if (FR->getRangeInit())
          J.attribute("range", (int64_t)ids[FR->getRangeInit()]);
        if (FR->getLoopVariable()) {
          J.attributeObject("loopvar", [&] { varAttrs(FR->getLoopVariable()); });
        }
        if (FR->getLoopVarStmt())
          J.attribute("loopvarstmt", (int64_t)ids[FR->getLoopVarStmt()]);
        J.attribute("body", (int64_t)ids[FR->getBody()]);
      } else if (auto *Wh = dyn_cast<WhileStmt>(S)) {
        J.attribute("cond", (int64_t)ids[Wh->getCond()]);
        J.attribute("body", (int64_t)ids[Wh->getBody()]);
      } else if (auto *Do = dyn_cast<DoStmt>(S)) {
        J.attribute("cond", (int64_t)ids[Do->getCond()]);
        J.attribute("body", (int64_t)ids[Do->getBody()]);
      } else if (auto *CO = dyn_cast<ConditionalOperator>(S)) {
        J.attribute("cond", (int64_t)ids[CO->getCond()]);
        J.attribute("lhs", (int64_t)ids[CO->getTrueExpr()]);
        J.attribute("rhs", (int64_t)ids[CO->getFalseExpr()]);
      } else if (auto *UE = dyn_cast<UnaryExprOrTypeTraitExpr>(S)) {
        J.attribute("trait", (int64_t)UE->getKind());
      }
    });
  }

  void emitCFG(const Decl *D, Stmt *Body) {
    CFG::BuildOptions BO;
    BO.setAllAlwaysAdd();
    BO.AddImplicitDtors = true;
    BO.AddTemporaryDtors = true;
    BO.AddInitializers = true;
    BO.AddEHEdges = false;
    BO.PruneTriviallyFalseEdges = false;
    std::unique_ptr<CFG> G = CFG::buildCFG(D, Body, C.AC, BO);
    if (!G) {
      J.attribute("cfg", nullptr);
      return;
    }
    J.attributeObject("cfg", [&] {
      J.attribute("entry", (int64_t)G->getEntry().getBlockID());
      J.attribute("exit", (int64_t)G->getExit().getBlockID());
      J.attributeArray("blocks", [&] {
        for (const CFGBlock *B : *G) {
          J.object([&] {
            J.attribute("id", (int64_t)B->getBlockID());
            if (B->hasNoReturnElement())
              J.attribute("noreturn", true);
            J.attributeArray("elems", [&] {
              for (const CFGElement &E : *B) {
                J.object([&] {
                  switch (E.getKind()) {
                  case CFGElement::Statement:
                  case CFGElement::Constructor:
                  case CFGElement::CXXRecordTypedCall: {
                    const Stmt *S = E.castAs<CFGStmt>().getStmt();
                    J.attribute("k", "stmt");
                    auto It = ids.find(S);
                    J.attribute("n", (int64_t)(It == ids.end() ? -1 : It->second));
                    break;
                  }
                  case CFGElement::Initializer: {
                    const CXXCtorInitializer *I = E.castAs<CFGInitializer>().getInitializer();
                    J.attribute("k", "init");
                    if (I->isAnyMemberInitializer())
                      J.attribute("field", I->getAnyMember()->getNameAsString());
                    else if (I->isBaseInitializer())
                      J.attribute("base", C.typeStr(QualType(I->getBaseClass(), 0)));
                    auto It = ids.find(I->getInit());
                    J.attribute("n", (int64_t)(It == ids.end() ? -1 : It->second));
                    J.attribute("written", I->isWritten());
                    break;
                  }
                  case CFGElement::AutomaticObjectDtor: {
                    auto AD = E.castAs<CFGAutomaticObjDtor>();
                    J.attribute("k", "autodtor");
                    J.attribute("var", AD.getVarDecl()->getNameAsString());
                    J.attribute("vid", (int64_t)declId(AD.getVarDecl()));
                    J.attribute("type", C.typeStr(AD.getVarDecl()->getType()));
                    break;
                  }
                  case CFGElement::TemporaryDtor: {
                    J.attribute("k", "tempdtor");
                    const CXXBindTemporaryExpr *BT = E.castAs<CFGTemporaryDtor>().getBindTemporaryExpr();
                    auto It = ids.find(BT);
                    J.attribute("n", (int64_t)(It == ids.end() ? -1 : It->second));
                    break;
                  }
                  case CFGElement::BaseDtor:
                    J.attribute("k", "basedtor");
                    break;
                  case CFGElement::MemberDtor:
                    J.attribute("k", "memberdtor");
                    J.attribute("field", E.castAs<CFGMemberDtor>().getFieldDecl()->getNameAsString());
                    break;
                  case CFGElement::DeleteDtor:
                    J.attribute("k", "deletedtor");
                    break;
                  case CFGElement::NewAllocator:
                    J.attribute("k", "newalloc");
                    break;
                  case CFGElement::LifetimeEnds:
                    J.attribute("k", "lifetimeends");
                    break;
                  case CFGElement::LoopExit:
                    J.attribute("k", "loopexit");
                    break;
                  case CFGElement::ScopeBegin:
                    J.attribute("k", "scopebegin");
                    break;
                  case CFGElement::ScopeEnd:
                    J.attribute("k", "scopeend");
                    break;
                  }
                });
              }
            });
            J.attributeArray("succs", [&] {
              for (auto I = B->succ_begin(); I != B->succ_end(); ++I) {
                const CFGBlock *SB = I->getReachableBlock();
                bool unreachable = false;
                if (!SB) {
                  SB = I->getPossiblyUnreachableBlock();
                  unreachable = true;
                }
                if (!SB)
                  J.value(nullptr);
                else if (unreachable)
                  J.value(-(int64_t)SB->getBlockID() - 1000000);
                else
                  J.value((int64_t)SB->getBlockID());
              }
            });
            if (const Stmt *T = B->getTerminatorStmt()) {
              auto It = ids.find(T);
              J.attribute("term", (int64_t)(It == ids.end() ? -1 : It->second));
              J.attribute("termk", T->getStmtClassName());
            }
            if (B->getTerminator().isTemporaryDtorsBranch())
              J.attribute("tempdtor_branch", true);
            if (const Stmt *TC = B->getTerminatorCondition()) {
              auto It = ids.find(TC);
              J.attribute("cond", (int64_t)(It == ids.end() ? -1 : It->second));
            }
            if (const Stmt *L = B->getLabel()) {
              auto It = ids.find(L);
              J.attribute("label", (int64_t)(It == ids.end() ? -1 : It->second));
              J.attribute("labelk", L->getStmtClassName());
            }
          });
        }
      });
    });
  }

  void sigAttrs(const FunctionDecl *FD) {
    J.attribute("usr", usrOf(FD->getCanonicalDecl()));
    J.attribute("qname", qname(FD));
    J.attribute("name", FD->getDeclName().getAsString());
    J.attribute("ret", C.typeStr(FD->getReturnType()));
    J.attribute("file", C.fileOf(FD->getLocation()));
    J.attribute("line", (int64_t)C.lineOf(FD->getBeginLoc()));
    J.attribute("eline", (int64_t)C.lineOf(FD->getEndLoc()));
    J.attribute("implicit", FD->isImplicit());
    J.attribute("defaulted", FD->isDefaulted());
    J.attribute("deleted", FD->isDeleted());
    J.attribute("variadic", FD->isVariadic());
    J.attribute("internal", !FD->isExternallyVisible());
    if (auto *FPT = FD->getType()->getAs<FunctionProtoType>()) {
      ExceptionSpecificationType EST = FPT->getExceptionSpecType();
      if (!isUnresolvedExceptionSpec(EST))
        J.attribute("noexcept", FPT->isNothrow());
      else
        J.attribute("noexcept", nullptr);
    }
    const char *kind = "function";
    if (isa<CXXConstructorDecl>(FD))
      kind = "ctor";
    else if (isa<CXXDestructorDecl>(FD))
      kind = "dtor";
    else if (isa<CXXConversionDecl>(FD))
      kind = "conversion";
    else if (isa<CXXMethodDecl>(FD))
      kind = "method";
    J.attribute("kind", kind);
    if (auto *MD = dyn_cast<CXXMethodDecl>(FD)) {
      J.attribute("class", qname(MD->getParent()));
      J.attribute("const", MD->isConst());
      J.attribute("static", MD->isStatic());
      J.attribute("virtual", MD->isVirtual());
      J.attribute("user_provided", MD->isUserProvided());
      const char *acc = "none";
      switch (MD->getAccess()) {
      case AS_public: acc = "public"; break;
      case AS_protected: acc = "protected"; break;
      case AS_private: acc = "private"; break;
      default: break;
      }
      J.attribute("access", acc);
      if (MD->isCopyAssignmentOperator())
        J.attribute("copyassign", true);
      if (MD->isMoveAssignmentOperator())
        J.attribute("moveassign", true);
    }
    if (auto *CD = dyn_cast<CXXConstructorDecl>(FD)) {
      J.attribute("copy", CD->isCopyConstructor());
      J.attribute("move", CD->isMoveConstructor());
      J.attribute("default", CD->isDefaultConstructor());
    }
    J.attributeArray("params", [&] {
      for (auto *P : FD->parameters()) {
        J.object([&] {
          J.attribute("id", (int64_t)declId(P));
          J.attribute("name", P->getNameAsString());
          J.attribute("type", C.typeStr(P->getType()));
          C.typeAttrs(J, P->getType());
          J.attribute("hasdefault", P->hasDefaultArg());
          if (P->hasDefaultArg() && !P->hasUninstantiatedDefaultArg() && !P->hasUnparsedDefaultArg()) {
            const Expr *DA = P->getDefaultArg();
            Expr::EvalResult R;
            if (DA && !DA->isValueDependent() && DA->getType()->isIntegralOrEnumerationType() &&
                DA->EvaluateAsInt(R, *C.AC, Expr::SE_NoSideEffects)) {
              llvm::SmallString<32> B;
              R.Val.getInt().toString(B, 10);
              J.attribute("default_cv", B.str());
            }
          }
        });
      }
    });
  }

  void emit(const FunctionDecl *FD) {
    Stmt *Body = FD->getBody();
    // number params first so ids are stable
    for (auto *P : FD->parameters())
      declId(P);
    if (auto *CD = dyn_cast<CXXConstructorDecl>(FD))
      for (auto *I : CD->inits())
        number(I->getInit(), -1);
    number(Body, -1);
    J.object([&] {
      sigAttrs(FD);
      if (auto *CD = dyn_cast<CXXConstructorDecl>(FD)) {
        J.attributeArray("inits", [&] {
          for (auto *I : CD->inits()) {
            J.object([&] {
              if (I->isAnyMemberInitializer())
                J.attribute("field", I->getAnyMember()->getNameAsString());
              else if (I->isBaseInitializer())
                J.attribute("base", C.typeStr(QualType(I->getBaseClass(), 0)));
              else if (I->isDelegatingInitializer())
                J.attribute("delegating", true);
              J.attribute("written", I->isWritten());
              J.attribute("expr", (int64_t)ids[I->getInit()]);
            });
          }
        });
      }
      J.attribute("body", (int64_t)ids[Body]);
      J.attributeArray("nodes", [&] {
        for (size_t i = 0; i < order.size(); ++i)
          emitNode(order[i]);
      });
      emitCFG(FD, Body);
    });
  }
};

class Visitor : public RecursiveASTVisitor<Visitor> {
public:
  Ctx &C;
  std::vector<const FunctionDecl *> Funcs;
  std::vector<const CXXRecordDecl *> Classes;
  std::vector<const VarDecl *> Statics;
  std::vector<const FunctionDecl *> Decls; // all function declarations in repo (for inventories)
  std::set<const Decl *> Seen;

  explicit Visitor(Ctx &C) : C(C) {}
  bool shouldVisitImplicitCode() const { return true; }
  bool shouldVisitTemplateInstantiations() const { return true; }

  bool VisitFunctionDecl(FunctionDecl *FD) {
    if (!C.inRepo(FD))
      return true;
    if (FD->isDependentContext())
      return true;
    if (FD->doesThisDeclarationHaveABody() && FD->getBody() && Seen.insert(FD).second)
      Funcs.push_back(FD);
    return true;
  }
  bool VisitCXXRecordDecl(CXXRecordDecl *RD) {
    if (!C.inRepo(RD) || !RD->isThisDeclarationADefinition() || RD->isImplicit())
      return true;
    if (RD->isDependentContext())
      return true;
    if (Seen.insert(RD).second)
      Classes.push_back(RD);
    return true;
  }
  bool VisitVarDecl(VarDecl *VD) {
    if (!C.inRepo(VD))
      return true;
    if (VD->hasGlobalStorage() && !isa<ParmVarDecl>(VD) && Seen.insert(VD->getCanonicalDecl()).second)
      Statics.push_back(VD);
    return true;
  }
};

class Consumer : public ASTConsumer {
public:
  std::string unit;
  explicit Consumer(std::string U) : unit(std::move(U)) {}

  void HandleTranslationUnit(ASTContext &AC) override {
    Ctx C;
    C.AC = &AC;
    C.SM = &AC.getSourceManager();
    C.PP = PrintingPolicy(AC.getLangOpts());
    C.PP.SuppressTagKeyword = true;
    C.PP.Bool = true;
    C.root = Root;
    while (!C.root.empty() && C.root.back() == '/')
      C.root.pop_back();

    // force definition of implicit special members of repo classes so that their
    // synthesized bodies (member-wise copies) are visible
    Visitor V(C);
    V.TraverseDecl(AC.getTranslationUnitDecl());

    std::error_code EC;
    llvm::raw_fd_ostream OS(Out, EC);
    if (EC) {
      llvm::errs() << "cannot write " << Out << ": " << EC.message() << "\n";
      exit(3);
    }
    llvm::json::OStream J(OS, 0);
    J.object([&] {
      J.attribute("unit", unit);
      J.attribute("errors", (int64_t)AC.getDiagnostics().getNumErrors());
      J.attributeArray("functions", [&] {
        for (const FunctionDecl *FD : V.Funcs) {
          FuncEmitter FE(C, J);
          FE.emit(FD);
        }
      });
      J.attributeArray("classes", [&] {
        for (const CXXRecordDecl *RD : V.Classes) {
          J.object([&] {
            J.attribute("qname", qname(RD));
            J.attribute("file", C.fileOf(RD->getLocation()));
            J.attribute("line", (int64_t)C.lineOf(RD->getLocation()));
            J.attribute("polymorphic", RD->isPolymorphic());
            J.attributeArray("bases", [&] {
              for (auto &B : RD->bases())
                J.value(C.typeStr(B.getType()));
            });
            J.attributeArray("fields", [&] {
              for (auto *F : RD->fields()) {
                J.object([&] {
                  J.attribute("name", F->getNameAsString());
                  J.attribute("type", C.typeStr(F->getType()));
                  C.typeAttrs(J, F->getType());
                  J.attribute("mutable", F->isMutable());
                  J.attribute("has_init", F->hasInClassInitializer());
                  J.attribute("line", (int64_t)C.lineOf(F->getLocation()));
                  const char *acc = "none";
                  switch (F->getAccess()) {
                  case AS_public: acc = "public"; break;
                  case AS_protected: acc = "protected"; break;
                  case AS_private: acc = "private"; break;
                  default: break;
                  }
                  J.attribute("access", acc);
                  QualType T = F->getType().getCanonicalType();
                  const char *own = "value";
                  if (T->isPointerType())
                    own = "rawptr";
                  else if (T->isReferenceType())
                    own = "ref";
                  else if (auto *R = T->getAsCXXRecordDecl()) {
                    std::string N = qname(R);
                    if (N == "std::shared_ptr" || N == "std::unique_ptr" || N == "std::weak_ptr" ||
                        N == "std::__shared_ptr")
                      own = N == "std::unique_ptr" ? "unique_ptr" : "shared_ptr";
                  }
                  J.attribute("own", own);
                });
              }
            });
            J.attributeObject("special", [&] {
              J.attribute("user_copy_ctor", RD->hasUserDeclaredCopyConstructor());
              J.attribute("user_copy_assign", RD->hasUserDeclaredCopyAssignment());
              J.attribute("user_move_ctor", RD->hasUserDeclaredMoveConstructor());
              J.attribute("user_move_assign", RD->hasUserDeclaredMoveAssignment());
              J.attribute("user_dtor", RD->hasUserDeclaredDestructor());
              J.attribute("trivially_copyable", RD->isTriviallyCopyable());
            });
            J.attributeArray("methods", [&] {
              for (auto *D : RD->decls()) {
                auto *MD = dyn_cast<CXXMethodDecl>(D);
                if (!MD)
                  continue;
                J.object([&] {
                  FuncEmitter FE(C, J);
                  FE.sigAttrs(MD);
                  J.attribute("has_body", MD->isDefined());
                });
              }
            });
          });
        }
      });
      J.attributeArray("statics", [&] {
        for (const VarDecl *VD : V.Statics) {
          J.object([&] {
            J.attribute("qname", qname(VD));
            J.attribute("type", C.typeStr(VD->getType()));
            J.attribute("file", C.fileOf(VD->getLocation()));
            J.attribute("line", (int64_t)C.lineOf(VD->getLocation()));
            J.attribute("const", VD->getType().isConstQualified());
            J.attribute("constexpr", VD->isConstexpr());
            J.attribute("staticlocal", VD->isStaticLocal());
            J.attribute("staticmember", VD->isStaticDataMember());
            J.attribute("tls", VD->getTLSKind() != VarDecl::TLS_None);
            bool constinit = false;
            if (const VarDecl *Def = VD->getDefinition())
              if (Def->getInit())
                constinit = Def->getInit()->isConstantInitializer(AC, false);
            J.attribute("const_init", constinit);
          });
        }
      });
    });
    OS << "\n";
  }
};

class Action : public ASTFrontendAction {
public:
  std::unique_ptr<ASTConsumer> CreateASTConsumer(CompilerInstance &CI, StringRef File) override {
    return std::make_unique<Consumer>(File.str());
  }
};

} // namespace

int main(int argc, const char **argv) {
  auto Exp = CommonOptionsParser::create(argc, argv, Cat);
  if (!Exp) {
    llvm::errs() << llvm::toString(Exp.takeError()) << "\n";
    return 2;
  }
  ClangTool Tool(Exp->getCompilations(), Exp->getSourcePathList());
  return Tool.run(newFrontendActionFactory<Action>().get());
}
