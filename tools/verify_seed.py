#!/usr/bin/env python3
"""tools/verify_seed.py <candidate dir with patch.diff demo.cpp meta.json> <seed name>
Confirms, in a scratch worktree of /repo (outside /repo and /verif), that the candidate
  - applies at /repo's HEAD, still compiles, and the existing suite still passes with it,
  - its demonstration fails with the change and passes without it,
then copies it to /verif/seeded/<seed name>/ with what was run.  Developer tool, not a check."""
import json, os, shutil, subprocess, sys, time
cand, name = sys.argv[1], sys.argv[2]
WT = '/tmp/wt/verify'
def sh(cmd, cwd=None, timeout=900):
    r = subprocess.run(cmd, shell=True, cwd=cwd, capture_output=True, text=True, timeout=timeout)
    return r.returncode, (r.stdout + r.stderr)
head = subprocess.run(['git', '-C', '/repo', 'rev-parse', 'HEAD'], capture_output=True, text=True).stdout.strip()
if not os.path.exists(WT):
    sh('git -C /repo worktree add -q --detach %s HEAD && cp -r /repo/external/gtest/. %s/external/gtest/' % (WT, WT))
else:
    sh('git checkout -q -- . && git checkout -q --detach %s' % head, cwd=WT)
log = []
def step(desc, cmd, expect_zero=True, cwd=WT):
    rc, out = sh(cmd, cwd=cwd)
    log.append({'step': desc, 'cmd': cmd, 'rc': rc, 'tail': out[-400:]})
    ok = (rc == 0) == expect_zero
    print('%-50s rc=%d %s' % (desc, rc, 'OK' if ok else 'UNEXPECTED'))
    return ok, out
BUILD = 'cmake -S . -B _build -G Ninja -DBUILD_TESTS=ON >/dev/null 2>&1 && cmake --build _build 2>&1 | tail -2'
DEMO = 'g++ -std=gnu++11 -pthread -I%s/include %s/demo.cpp -L%s/_build -lezc3d -Wl,-rpath,%s/_build -o /tmp/wt/verify_demo' % (WT, cand, WT, WT)
meta = json.load(open(os.path.join(cand, 'meta.json')))
runner = meta.get('demo_runner') or '/tmp/wt/verify_demo'
good = True
ok, _ = step('baseline build', BUILD); good &= ok
ok, _ = step('demo compiles (baseline)', DEMO); good &= ok
ok, out0 = step('demo passes on unchanged tree', 'cd %s/test 2>/dev/null; cd %s; %s' % (WT, WT, runner)); good &= ok
ok, _ = step('patch applies', 'git apply %s/patch.diff' % cand); good &= ok
ok, _ = step('build with change', BUILD); good &= ok
ok, out = step('existing suite passes with change', 'ctest --test-dir _build -j8 --timeout 900 2>&1 | tail -3'); good &= ok and '100% tests passed' in out
ok, _ = step('demo compiles (changed)', DEMO); good &= ok
ok, out1 = step('demo FAILS with change', 'cd %s; %s' % (WT, runner), expect_zero=False); good &= ok
sh('git checkout -q -- .', cwd=WT)
sh(BUILD, cwd=WT)
if good:
    dst = os.path.join('/verif/seeded', name)
    os.makedirs(dst, exist_ok=True)
    for f in ('patch.diff', 'demo.cpp'):
        shutil.copy(os.path.join(cand, f), dst)
    meta['confirmed'] = {'at_repo_head': head, 'steps': [{'step': l['step'], 'rc': l['rc']} for l in log],
                         'demo_output_with_change': out1[-600:], 'how': 'tools/verify_seed.py in a scratch worktree (removed afterwards)'}
    meta.setdefault('breaks', meta.get('property'))
    json.dump(meta, open(os.path.join(dst, 'meta.json'), 'w'), indent=1)
    print('KEPT as', dst)
else:
    print('REJECTED'); print(json.dumps(log[-3:], indent=1)[:1500])
sys.exit(0 if good else 1)
