#!/usr/bin/env python3
"""tools/seedrun.py [seed names...]  — apply each /verif/seeded/<name>/patch.diff to /repo, run every
registered quick check, undo the patch.  Prints which checks fire.  Developer tool."""
import json, os, subprocess, sys
V = os.path.dirname(os.path.dirname(os.path.abspath(__file__)))
names = sys.argv[1:] or sorted(os.listdir(os.path.join(V, 'seeded')))
man = json.load(open(os.path.join(V, 'MANIFEST.json')))
pids = [c['property_id'] for c in man['checks']]
if subprocess.run('git -C /repo status --porcelain --untracked-files=no', shell=True, capture_output=True, text=True).stdout.strip():
    print('/repo is dirty'); sys.exit(2)
rows = []
for nm in names:
    d = os.path.join(V, 'seeded', nm)
    if not os.path.isdir(d): continue
    r = subprocess.run(['git', '-C', '/repo', 'apply', os.path.join(d, 'patch.diff')], capture_output=True, text=True)
    if r.returncode:
        print(nm, 'PATCH DOES NOT APPLY', r.stderr[:200]); continue
    fired, undec = [], []
    detail = {}
    try:
        for pid in pids:
            r = subprocess.run([os.path.join(V, 'check'), pid], capture_output=True, text=True, cwd=V)
            if r.returncode == 1:
                fired.append(pid)
                detail[pid] = [l.strip() for l in r.stdout.splitlines() if l.startswith('  rule=')][:2]
            elif r.returncode != 0:
                undec.append(pid)
                detail[pid] = [l.strip() for l in r.stdout.splitlines() if l.startswith('UNDECIDED')][:2]
    finally:
        subprocess.run('git -C /repo checkout -- .', shell=True)
    target = json.load(open(os.path.join(d, 'meta.json'))).get('property')
    print('%-8s target=%s fired=%s undecided=%s %s' % (nm, target, ','.join(fired) or '-', ','.join(undec) or '-', 'CAUGHT' if target in fired else ('caught-by-other' if fired else 'MISSED')))
    for pid, ls in detail.items():
        for l in ls: print('      %s: %s' % (pid, l[:220]))
