#!/usr/bin/env python3
"""(re)generates selftest/<id>/{fire,quiet}-NN-<slug>.patch from the table below: each entry is a
textual edit of /repo's current sources (used only to *produce* the patch; the patches are what the
thorough tier applies).  fire = the property is broken and the check must report it; quiet =
behaviour-preserving refactor, the check must stay silent."""
import os, subprocess, sys, tempfile, shutil, re
V = os.path.dirname(os.path.dirname(os.path.abspath(__file__)))
T = []
def fire(pid, slug, *edits): T.append((pid, 'fire', slug, edits))
def quiet(pid, slug, *edits): T.append((pid, 'quiet', slug, edits))

W = 'src/ezc3d.cpp'
FINAL = '''    if (f.fail())
        throw std::ios_base::failure("Could not write the c3d file");'''
# ---- C15
fire('C15', 'final-test-removed', (W, FINAL, ''))
fire('C15', 'test-before-close', (W, '    f.close();\n' + FINAL, FINAL + '\n    f.close();'))
fire('C15', 'clear-in-section-writer', ('src/Data.cpp', '        frame(i).write(f);', '        {frame(i).write(f); f.clear();}'))
fire('C15', 'wrong-class', (W, 'throw std::ios_base::failure("Could not write the c3d file");', 'throw std::runtime_error("Could not write the c3d file");'))
fire('C15', 'bad-only', (W, 'if (f.fail())', 'if (f.bad())'))
fire('C15', 'swallow', (W, FINAL, '    try { if (f.fail())\n        throw std::ios_base::failure("Could not write the c3d file");} catch (...) {}'))
fire('C15', 'no-open-check', (W, '''    if (!f.is_open())
        throw std::ios_base::failure("Could not open the c3d file for writing");
''', ''), (W, 'if (f.fail())', 'if (f.bad())'))
quiet('C15', 'good', (W, 'if (f.fail())', 'if (!f.good())'))
quiet('C15', 'not-f', (W, 'if (f.fail())', 'if (!f)'))
quiet('C15', 'exceptions-mode', (W, '''    if (!f.is_open())
        throw std::ios_base::failure("Could not open the c3d file for writing");''', '    f.exceptions(std::ios::failbit | std::ios::badbit);'), (W, FINAL, ''))
# ---- C18
fire('C18', 'static-scratch', (W, '''    readFile(m_nByteToRead_float, c_float, nByteFromPrevious, pos);
    float out (*reinterpret_cast<float*>(c_float));''', '''    static char buf[5];
    readFile(m_nByteToRead_float, buf, nByteFromPrevious, pos);
    float out (*reinterpret_cast<float*>(buf));'''))
fire('C18', 'namespace-cache', (W, 'std::string ezc3d::toUpper(const std::string &str){', 'static std::string lastUpper;\nstd::string ezc3d::toUpper(const std::string &str){'))
fire('C18', 'strtok', (W, '    std::string new_str = str;', '    std::string new_str = str; char tmp[2]="a"; strtok(tmp, " ");'))
fire('C18', 'static-counter', ('src/Data.cpp', '''                    std::stringstream unlabel;
                    unlabel << "unlabeled_point_" << i;''', '''                    std::stringstream unlabel; static size_t counter = 0; ++counter;
                    unlabel << "unlabeled_point_" << i;'''))
quiet('C18', 'const-static', (W, 'std::string ezc3d::toUpper(const std::string &str){', 'static const int kBlock = 512;\nstd::string ezc3d::toUpper(const std::string &str){'))
quiet('C18', 'tmp-derived-from-arg', (W, 'std::fstream f(filePath, std::ios::out | std::ios::binary);', 'std::string tmp(filePath + ".tmp"); std::fstream f(tmp, std::ios::out | std::ios::binary);'))
quiet('C18', 'debug-cout', ('src/Data.cpp', '    if (idx == SIZE_MAX) {', '    std::cout << "";\n    if (idx == SIZE_MAX) {'))
# ---- C08
APP = '''        _frames.resize(_frames.size() + 1);
        _frames.back().add(source);'''
fire('C08', 'push-back-alias', ('src/Data.cpp', APP, '        _frames.push_back(frame);'))
fire('C08', 'elem-assign', ('src/Data.cpp', '        _frames[idx].add(source);', '        _frames[idx] = frame;'))
fire('C08', 'add-copies-handle', ('src/Frame.cpp', '    add(frame.points(), frame.analogs());', '    _points = frame._points; add(frame.analogs());'))
fire('C08', 'resize-with-value', ('src/Data.cpp', '            _frames.resize(idx+1);', '            _frames.resize(idx+1, frame);'))
quiet('C08', 'push-back-fresh', ('src/Data.cpp', '        _frames.resize(_frames.size() + 1);', '        _frames.push_back(ezc3d::DataNS::Frame());'))
quiet('C08', 'emplace-back', ('src/Data.cpp', '        _frames.resize(_frames.size() + 1);', '        _frames.emplace_back();'))
# ---- C11
fire('C11', 'idx-from-1', ('src/Points.cpp', '''for (size_t i = 0; i < nbPoints(); ++i)
        if (!point(i).name()''', '''for (size_t i = 1; i < nbPoints(); ++i)
        if (!point(i).name()'''))
fire('C11', 'le-bound', ('src/Group.cpp', '''for (size_t i = 0; i < nbParameters(); ++i)
        if (!parameter(i).name().compare(parameterName))''', '''for (size_t i = 0; i <= nbParameters(); ++i)
        if (!parameter(i).name().compare(parameterName))'''))
fire('C11', 'toupper-one-side', ('src/Parameters.cpp', 'if (!group(i).name().compare(groupName))', 'if (!group(i).name().compare(ezc3d::toUpper(groupName)))'))
fire('C11', 'wrong-class', ('src/Subframe.cpp', 'throw std::invalid_argument("Subframe::channelIdx', 'throw std::out_of_range("Subframe::channelIdx'))
fire('C11', 'getter-guard', ('src/Parameter.cpp', 'if (_data_type != DATA_TYPE::BYTE)', 'if (_data_type != DATA_TYPE::BYTE && _data_type != DATA_TYPE::INT)'))
fire('C11', 'untrimmed-ctor', ('src/Point.cpp', '''ezc3d::DataNS::Points3dNS::Point::Point(const std::string &name)
{
    this->name(name);''', '''ezc3d::DataNS::Points3dNS::Point::Point(const std::string &name) :
    _name(name)
{'''))
quiet('C11', 'operator-eq', ('src/Parameters.cpp', 'if (!group(i).name().compare(groupName))', 'if (group(i).name() == groupName)'))
quiet('C11', 'explicit-range-check', ('src/Subframe.cpp', '''const ezc3d::DataNS::AnalogsNS::Channel &ezc3d::DataNS::AnalogsNS::SubFrame::channel(size_t idx) const
{
    try {
        return _channels.at(idx);''', '''const ezc3d::DataNS::AnalogsNS::Channel &ezc3d::DataNS::AnalogsNS::SubFrame::channel(size_t idx) const
{
    if (idx >= _channels.size()) throw std::out_of_range("x");
    try {
        return _channels[idx];'''))
# ---- C14 / C13
LBL = '''        char event[2*ezc3d::DATA_TYPE::WORD] = {0};
        _eventsLabel[i].copy(event, 2*ezc3d::DATA_TYPE::WORD);
        f.write(event, 2*ezc3d::DATA_TYPE::WORD);'''
fire('C14', 'label-overread', ('src/Header.cpp', LBL, '''        const char* event = _eventsLabel[i].c_str();
        f.write(event, 2*ezc3d::DATA_TYPE::WORD);'''))
fire('C13', 'label-overread', ('src/Header.cpp', LBL, '''        const char* event = _eventsLabel[i].c_str();
        f.write(event, 2*ezc3d::DATA_TYPE::WORD);'''))
fire('C14', 'channel-data-uninit', ('src/Channel.cpp', '''    _data(0)
{
    this->name(name);''', '''    _name(name)
{'''))
fire('C14', 'static-in-writer', ('src/Points.cpp', '''    for (size_t i = 0; i < nbPoints(); ++i)
        point(i).write(f);''', '''    static size_t count = 0;
    for (size_t i = 0; i < nbPoints(); ++i, ++count)
        point(i).write(f);'''))
fire('C14', 'width-enlarged', ('src/Header.cpp', 'f.write(reinterpret_cast<const char*>(&frameRate), 2*ezc3d::DATA_TYPE::WORD);', 'f.write(reinterpret_cast<const char*>(&frameRate), 4*ezc3d::DATA_TYPE::WORD);'))
fire('C14', 'local-before-assignment', ('src/Parameters.cpp', '    int blankValue(0);', '    int blankValue;'))
fire('C14', 'const-cast', ('src/Data.cpp', '''void ezc3d::DataNS::Data::write(std::fstream &f) const
{''', '''void ezc3d::DataNS::Data::write(std::fstream &f) const
{
    const_cast<std::vector<ezc3d::DataNS::Frame>&>(_frames).reserve(_frames.size());'''))
quiet('C14', 'zeros-as-one-buffer', ('src/Header.cpp', '''    for (int i=0; i<135; ++i)
        f.write(reinterpret_cast<const char*>(&_emptyBlock1), 1*ezc3d::DATA_TYPE::WORD);''', '''    char zeros[270] = {0};
    f.write(zeros, 270);'''))
fire('C13', 'scalar-delete', (W, 'delete[] c_float;', 'delete c_float;'))
fire('C13', 'buffer-too-small', (W, '''    char* c = new char[nByteToRead + 1];
    readFile(nByteToRead, c, nByteFromPrevious, pos);

    // make sure it is an int and not an unsigned int
    int out''', '''    char* c = new char[nByteToRead];
    readFile(nByteToRead, c, nByteFromPrevious, pos);

    // make sure it is an int and not an unsigned int
    int out'''))
fire('C13', 'leak', (W, '''    std::string out(c);
    delete[] c;''', '''    std::string out(c);
    if (nByteToRead > 0) delete[] c;'''))
fire('C13', 'dangling-ref', ('src/Header.cpp', '''const std::vector<float>& ezc3d::Header::eventsTime() const
{
    return _eventsTime;''', '''const std::vector<float>& ezc3d::Header::eventsTime() const
{
    std::vector<float> copy(_eventsTime);
    return copy;'''))
fire('C13', 'guard-dropped', ('src/Analogs.cpp', '''        else
            _subframe[idx] = subframe;''', '''        _subframe[idx + 1] = subframe;'''))
fire('C13', 'loop-le', ('src/Header.cpp', 'for (unsigned int i = 0; i < _eventsTime.size(); ++i)\n        f.write', 'for (unsigned int i = 0; i <= _eventsTime.size(); ++i)\n        f.write'))
# ---- C06
fire('C06', 'gt-instead-of-ge', ('src/Points.cpp', 'if (idx >= nbPoints())', 'if (idx > nbPoints())'))
fire('C06', 'resize-idx', ('src/Analogs.cpp', '_subframe.resize(idx+1);', '_subframe.resize(idx);'))
fire('C06', 'store-idx-minus-1', ('src/Subframe.cpp', '_channels[idx] = channel;', '_channels[idx-1] = channel;'))
fire('C06', 'frame-loop-from-1', (W, '''        for (size_t f=0; f<frames.size(); ++f)
            _data->frame_nonConst(f).points_nonConst()''', '''        for (size_t f=1; f<frames.size(); ++f)
            _data->frame_nonConst(f).points_nonConst()'''))
quiet('C06', 'negated-lt', ('src/Points.cpp', 'if (idx >= nbPoints())', 'if (!(idx < _points.size()))'))
# ---- C07
fire('C07', 'ne-to-lt', (W, 'if (nPoints != 0 && f.points().nbPoints() != nPoints)', 'if (nPoints != 0 && f.points().nbPoints() < nPoints)'))
fire('C07', 'dropped-conjunct', (W, 'if (nPoints != 0 && f.points().nbPoints() != nPoints)', 'if (f.points().nbPoints() != nPoints)'))
fire('C07', 'wrong-class', (W, 'throw std::runtime_error("Point frame rate must be specified if you add some");', 'throw std::invalid_argument("Point frame rate must be specified if you add some");'))
fire('C07', 'catch-order', ('binding/ezc3d.i', '''    } catch (const std::ios_base::failure& e) {
        SWIG_exception(SWIG_IOError, e.what());
    } catch (const std::runtime_error& e) {
        SWIG_exception(SWIG_RuntimeError, e.what());''', '''    } catch (const std::runtime_error& e) {
        SWIG_exception(SWIG_RuntimeError, e.what());
    } catch (const std::ios_base::failure& e) {
        SWIG_exception(SWIG_IOError, e.what());'''))
quiet('C07', 'de-morgan', (W, 'if (!(nAnalogs==0 && nAnalogByFrames==0) && nChannel != nAnalogs )', 'if ((nAnalogs!=0 || nAnalogByFrames!=0) && !(nChannel == nAnalogs))'))
# ---- C05
fire('C05', 'dropped-updater', (W, '''    _data->frame(f, idx);
    updateParameters();''', '''    _data->frame(f, idx);'''))
fire('C05', 'early-return', (W, '''    _data->frame(f, idx);
    updateParameters();''', '''    _data->frame(f, idx);
    if (idx == 0) return;
    updateParameters();'''))
fire('C05', 'wrong-source', (W, '        _header->nb3dPoints(static_cast<size_t>(parameters().group("POINT").parameter("USED").valuesAsInt()[0]));', '        _header->nb3dPoints(static_cast<size_t>(parameters().group("POINT").parameter("FRAMES").valuesAsInt()[0]));'))
fire('C05', 'stale-guard', (W, 'if (static_cast<size_t>(parameters().group("POINT").parameter("USED").valuesAsInt()[0]) != header().nb3dPoints()){', 'if (static_cast<size_t>(parameters().group("POINT").parameter("USED").valuesAsInt()[0]) > header().nb3dPoints()){'))
quiet('C05', 'unconditional-set', (W, 'if (static_cast<size_t>(parameters().group("POINT").parameter("USED").valuesAsInt()[0]) != header().nb3dPoints()){', 'if (true){'))
# ---- C09 / C10
fire('C09', 'insert-front', ('src/Group.cpp', '        _parameters.push_back(p);', '        _parameters.insert(_parameters.begin(), p);'))
fire('C09', 'assignment-hoisted', ('src/Parameter.cpp', '''    if (!isDimensionConsistent(data.size(), dimensionCopy))
        throw std::range_error("Dimension of the data does not correspond to sent dimensions");
    _data_type = ezc3d::DATA_TYPE::FLOAT;''', '''    _data_type = ezc3d::DATA_TYPE::FLOAT;
    if (!isDimensionConsistent(data.size(), dimensionCopy))
        throw std::range_error("Dimension of the data does not correspond to sent dimensions");'''))
fire('C09', 'lock-touches-parameters', ('src/Group.cpp', '''    _isLocked = true;
}
void''', '''    _isLocked = true;
    for (size_t i=0; i<_parameters.size(); ++i) _parameters[i].lock();
}
void'''))
fire('C09', 'wrong-type-constant', ('src/Parameter.cpp', '    _data_type = ezc3d::DATA_TYPE::FLOAT;', '    _data_type = ezc3d::DATA_TYPE::INT;'))
fire('C10', 'guard-below-store', (W, '''    _data->frame(f, idx);
    updateParameters();''', '''    _data->frame(f, idx);
    if (f.points().nbPoints() > 1000) throw std::runtime_error("too many");
    updateParameters();'''))
fire('C10', 'group-before-type-check', (W, '''    if (p.type() == ezc3d::DATA_TYPE::NONE)
        throw std::runtime_error("Data type is not set");
''', ''))
# ---- codec
fire('C01', 'residual-dropped', ('src/Point.cpp', '    residual(p.residual());', '    residual(0);'))
fire('C02', 'residual-dropped', ('src/Point.cpp', '    residual(p.residual());', '    residual(0);'))
fire('C12', 'residual-dropped', ('src/Point.cpp', '    residual(p.residual());', '    residual(0);'))
fire('C01', 'width-one-side', ('src/Header.cpp', '    _nbMaxInterpGap = file.readUint(1*ezc3d::DATA_TYPE::WORD);', '    _nbMaxInterpGap = file.readUint(1*ezc3d::DATA_TYPE::BYTE);'))
fire('C02', 'count-word-signed', ('src/Header.cpp', '    _nb3dPoints = file.readUint(1*ezc3d::DATA_TYPE::WORD);', '    _nb3dPoints = file.readInt(1*ezc3d::DATA_TYPE::WORD);'))
fire('C02', 'residual-before-z', ('src/Data.cpp', '''                pt.z(file.readFloat());
                pt.residual(file.readFloat());''', '''                pt.residual(file.readFloat());
                pt.z(file.readFloat());'''))
fire('C02', 'blocks-dropped-from-offset', ('src/Data.cpp', '''                 256*ezc3d::DATA_TYPE::WORD*file.parameters().nbParamBlock() -
                 ezc3d::DATA_TYPE::BYTE)''', '''                 ezc3d::DATA_TYPE::BYTE)'''))
fire('C02', 'label-le', ('src/Data.cpp', 'if (i < pointNames.size())', 'if (i <= pointNames.size())'))
fire('C03', 'header-words-swapped', ('src/Header.cpp', '''    f.write(reinterpret_cast<const char*>(&_nb3dPoints), 1*ezc3d::DATA_TYPE::WORD);
    f.write(reinterpret_cast<const char*>(&_nbAnalogsMeasurement), 1*ezc3d::DATA_TYPE::WORD);''', '''    f.write(reinterpret_cast<const char*>(&_nbAnalogsMeasurement), 1*ezc3d::DATA_TYPE::WORD);
    f.write(reinterpret_cast<const char*>(&_nb3dPoints), 1*ezc3d::DATA_TYPE::WORD);'''))
fire('C03', 'seek-dropped', ('src/Group.cpp', '''    f.write(reinterpret_cast<const char*>(&nCharToNext), 2*ezc3d::DATA_TYPE::BYTE);
    f.seekg(actualPos);''', '''    f.write(reinterpret_cast<const char*>(&nCharToNext), 2*ezc3d::DATA_TYPE::BYTE);'''))
fire('C03', 'padding-minus-1', ('src/Parameters.cpp', 'for (int i=0; i<512 - static_cast<int>(actualPos) % 512; ++i){', 'for (int i=0; i<512 - static_cast<int>(actualPos) % 512 - 1; ++i){'))
fire('C03', 'toupper-removed', ('src/Group.cpp', 'f.write(ezc3d::toUpper(name()).c_str(), nCharName*ezc3d::DATA_TYPE::BYTE);', 'f.write(name().c_str(), nCharName*ezc3d::DATA_TYPE::BYTE);'))
fire('C03', 'analog-sync-removed', (W, '''        if (static_cast<size_t>(parameters().group("ANALOG").parameter("USED").valuesAsInt()[0]) != header().nbAnalogs())
            _header->nbAnalogs(static_cast<size_t>(parameters().group("ANALOG").parameter("USED").valuesAsInt()[0]));
    } else''', '''        ;
    } else'''))
fire('C04', 'no-padding-1d', ('src/Parameter.cpp', '''                f.write(_param_data_string[0].c_str(), static_cast<int>(_param_data_string[0].size())*static_cast<int>(DATA_TYPE::BYTE));
                const char buffer = ' ';
                for (size_t j=_param_data_string[0].size(); j<_dimension[0]; ++j)
                    f.write(&buffer, static_cast<int>(DATA_TYPE::BYTE));''', '''                f.write(_param_data_string[0].c_str(), static_cast<int>(_param_data_string[0].size())*static_cast<int>(DATA_TYPE::BYTE));'''))
fire('C04', 'placeholders-written', ('src/Parameters.cpp', '''        if (!group(i).name().empty()) // unnamed groups only hold the place of an unused group id
            group(i).write''', '''        group(i).write'''))
fire('C12', 'byte-written-with-2', ('src/Parameter.cpp', '''            if (_data_type == DATA_TYPE::BYTE)
                f.write(reinterpret_cast<const char*>(&(_param_data_int[cmp])), static_cast<int>(_data_type));''', '''            if (_data_type == DATA_TYPE::BYTE)
                f.write(reinterpret_cast<const char*>(&(_param_data_int[cmp])), 2);'''))
fire('C12', 'unsigned-char-removed', (W, 'static_cast<int>(static_cast<unsigned char>(val[i]))', 'static_cast<int>(val[i])'))
fire('C12', 'float-through-double', ('src/Point.cpp', '    _data[0] = x;', '    _data[0] = static_cast<float>(static_cast<double>(x) * 1.0);'))
fire('C17', 'desc-len-signed', ('src/Parameter.cpp', '    size_t nbCharInDesc(file.readUint(1*ezc3d::DATA_TYPE::BYTE));', '    int nbCharInDesc(file.readInt(1*ezc3d::DATA_TYPE::BYTE));'))
fire('C16', 'desc-len-signed', ('src/Parameter.cpp', '    size_t nbCharInDesc(file.readUint(1*ezc3d::DATA_TYPE::BYTE));', '    int nbCharInDesc(file.readInt(1*ezc3d::DATA_TYPE::BYTE));'))
fire('C17', 'dim-entry-signed', ('src/Parameter.cpp', '            _dimension.push_back (file.readUint(1*ezc3d::DATA_TYPE::BYTE));', '            _dimension.push_back (static_cast<size_t>(file.readInt(1*ezc3d::DATA_TYPE::BYTE)));'))
fire('C16', 'empty-dims-again', ('src/Parameter.cpp', '    if (nDimensions == 0) // In the special case of a scalar', '    if (nDimensions == 0 && _data_type != DATA_TYPE::CHAR) // In the special case of a scalar'))
fire('C16', 'throws-int', ('src/Parameters.cpp', '            throw std::ios_base::failure("Bad c3d formatting");', '            throw 42;'))
quiet('C01', 'reader-regrouped', ('src/Header.cpp', '    _emptyBlock4 = file.readInt(22*ezc3d::DATA_TYPE::WORD);', '    _emptyBlock4 = file.readInt(11*ezc3d::DATA_TYPE::WORD);\n    _emptyBlock4 = file.readInt(11*ezc3d::DATA_TYPE::WORD);'))
quiet('C03', 'zeros-as-one-buffer', ('src/Header.cpp', '''    for (int i=0; i<22; ++i)
        f.write(reinterpret_cast<const char*>(&_emptyBlock4), 1*ezc3d::DATA_TYPE::WORD);''', '''    for (int i=0; i<11; ++i)
        f.write(reinterpret_cast<const char*>(&_emptyBlock4), 2*ezc3d::DATA_TYPE::WORD);'''))

# ---- round-2 rules
GATHER_OLD = """    for (size_t i = 0; i < nbSubframes(); ++i){
        subframe(i).write(f);
    }"""
GATHER = """    std::vector<float> values;
    for (const ezc3d::DataNS::AnalogsNS::SubFrame& sf : _subframe)
        for (const ezc3d::DataNS::AnalogsNS::Channel& c : sf.channels())
            values.push_back(c.data());
    if (!values.empty())
        f.write(reinterpret_cast<const char*>(values.data()), static_cast<std::streamsize>(%s));"""
for pid in ('C03', 'C12', 'C13', 'C14'):
    quiet(pid, 'gather-write-exact', ('src/Analogs.cpp', GATHER_OLD, GATHER % 'values.size() * ezc3d::DATA_TYPE::FLOAT'))
for pid in ('C13', 'C14'):
    fire(pid, 'gather-write-fixed-product', ('src/Analogs.cpp', GATHER_OLD, GATHER % 'nbSubframes() * subframe(0).nbChannels() * ezc3d::DATA_TYPE::FLOAT'))
NAN_OLD = """    f.write(reinterpret_cast<const char*>(&_data[0]), ezc3d::DATA_TYPE::FLOAT);"""
for pid in ('C03', 'C12', 'C01'):
    fire(pid, 'point-alt-path', ('src/Point.cpp', NAN_OLD, """    if (_data[3] < 0){
        const float invalid[4] = {0, 0, 0, -1};
        f.write(reinterpret_cast<const char*>(invalid), 4*ezc3d::DATA_TYPE::FLOAT);
        return;
    }
""" + NAN_OLD))
GW = "    f.write(ezc3d::toUpper(name()).c_str(), nCharName*ezc3d::DATA_TYPE::BYTE);"
for pid in ('C13', 'C14'):
    fire(pid, 'c-str-of-temporary', ('src/Group.cpp', GW, "    const char* up(ezc3d::toUpper(name()).c_str());\n    f.write(up, nCharName*ezc3d::DATA_TYPE::BYTE);"))
    quiet(pid, 'c-str-of-named-copy', ('src/Group.cpp', GW, "    const std::string upName(ezc3d::toUpper(name()));\n    const char* up(upName.c_str());\n    f.write(up, nCharName*ezc3d::DATA_TYPE::BYTE);"))
SETL = "        grpPoint.parameter_nonConst(idxLabels).set(labels);"
fire('C13', 'stale-reference-after-growth', (W, SETL, """        ezc3d::ParametersNS::GroupNS::Parameter& lab(grpPoint.parameter_nonConst(idxLabels));
        { ezc3d::ParametersNS::GroupNS::Parameter extra("EXTRA"); extra.set(std::vector<int>()); grpPoint.parameter(extra); }
        lab.set(labels);"""))
quiet('C13', 'reference-no-growth', (W, SETL, """        ezc3d::ParametersNS::GroupNS::Parameter& lab(grpPoint.parameter_nonConst(idxLabels));
        lab.set(labels);"""))
fire('C17', 'overstrict-guard', ('src/Parameter.cpp', "    int nCharName(static_cast<int>(name().size()));", """    if (name().size() > 100)
        throw std::range_error("name too long");
    int nCharName(static_cast<int>(name().size()));"""))

fire('C13', 'argument-aliases-element', ('src/Points.cpp', """        if (idx >= nbPoints()){
            // point may be an element of _points, copy it before the vector grows
            const ezc3d::DataNS::Points3dNS::Point source(point);
            _points.resize(idx+1);
            _points[idx] = source;
        }
        else
            _points[idx] = point;""", """        if (idx >= nbPoints())
            _points.resize(idx+1);
        _points[idx] = point;"""))

# ---- survivors of the mutation sweep (pass the project's suite; structural gaps closed afterwards)
for pid in ('C01', 'C03'):
    fire(pid, 'default-scale-positive', ('src/Header.cpp', '    _scaleFactor(-1),', '    _scaleFactor(+1),'))
for pid in ('C03', 'C04'):
    fire(pid, 'padding-loop-le', ('src/Parameter.cpp', 'for (size_t j=_param_data_string[0].size(); j<_dimension[0]; ++j)', 'for (size_t j=_param_data_string[0].size(); j<=_dimension[0]; ++j)'))
for pid in ('C02', 'C04'):
    fire(pid, 'dispatch-id-le-0', ('src/Parameters.cpp', 'if (id < 0)', 'if (id <= 0)'))
for pid in ('C02', 'C12'):
    fire(pid, 'float-marker-le', ('src/Data.cpp', 'if (file.header().scaleFactor() < 0){', 'if (file.header().scaleFactor() <= 0){'))
for pid in ('C13', 'C16'):
    fire(pid, 'vacuous-size-guard', (W, "if (s.size() > 0 && s[s.size()-1] == ' ')", "if (s.size() >= 0 && s[s.size()-1] == ' ')"))

# ---- second mutation sweep (statement deletions, disabled guards, constants)
fire('C16', 'no-eof-exit', ('src/Header.cpp', """        if (file.eof())
            throw std::ios_base::failure("File is empty");
""", ''))
quiet('C16', 'eof-exit-as-fail', ('src/Header.cpp', '        if (file.eof())\n            throw std::ios_base::failure("File is empty");', '        if (file.fail() || file.eof())\n            throw std::ios_base::failure("File is empty");'))
for pid in ('C01', 'C03', 'C04', 'C12'):
    fire(pid, 'label-half-copied', ('src/Header.cpp', '_eventsLabel[i].copy(event, 2*ezc3d::DATA_TYPE::WORD);', '_eventsLabel[i].copy(event, 1*ezc3d::DATA_TYPE::WORD);'))
fire('C09', 'setter-stores-nothing', ('src/Group.cpp', '    _description = description;', '    ;'))
fire('C09', 'setter-stores-elsewhere', ('src/Parameter.cpp', '    _description = description;', '    _name = description;'))
fire('C09', 'bool-overload', ('include/Parameter.h', '    void set(int data);', '    void set(int data);\n    void set(bool data) { set(static_cast<int>(data)); }'))
fire('C07', 'name-dispatch-gt-1', (W, """void ezc3d::c3d::point(const std::string &name){
    if (data().nbFrames() > 0){""", """void ezc3d::c3d::point(const std::string &name){
    if (data().nbFrames() > 1){"""))
quiet('C07', 'name-dispatch-ne-0', (W, """void ezc3d::c3d::point(const std::string &name){
    if (data().nbFrames() > 0){""", """void ezc3d::c3d::point(const std::string &name){
    if (data().nbFrames() != 0){"""))
fire('C02', 'labels-only-above-one', ('src/Data.cpp', 'if (file.header().nbAnalogs() > 0)\n        analogNames', 'if (file.header().nbAnalogs() > 1)\n        analogNames'))
quiet('C02', 'labels-when-nonzero', ('src/Data.cpp', 'if (file.header().nbAnalogs() > 0)\n        analogNames', 'if (file.header().nbAnalogs() != 0)\n        analogNames'))
fire('C05', 'labels-source-with-one-frame', (W, """    if (data().nbFrames() > 0)
        nPoints = data().frame(0).points().nbPoints();""", """    if (data().nbFrames() > 1)
        nPoints = data().frame(0).points().nbPoints();"""))
fire('C10', 'updater-frame-1', (W, 'name = data().frame(0).points().point(i).name();', 'name = data().frame(1).points().point(i).name();'))
for pid in ('C01', 'C02', 'C04'):
    fire(pid, 'analog-rescaled-on-load', ('src/Data.cpp', 'c.data(file.readFloat());', 'c.data(file.readFloat() * 2);'))
for pid in ('C01', 'C02'):
    fire(pid, 'one-char-strings-dropped', (W, 'if (dimension[0] != 0) {', 'if (dimension[0] != 1) {'))
fire('C14', 'append-mode', (W, 'std::fstream f(filePath, std::ios::out | std::ios::binary);', 'std::fstream f(filePath, std::ios::out | std::ios::app | std::ios::binary);'))
fire('C14', 'in-out-no-trunc', (W, 'std::fstream f(filePath, std::ios::out | std::ios::binary);', 'std::fstream f(filePath, std::ios::in | std::ios::out | std::ios::binary);'))
quiet('C14', 'explicit-trunc', (W, 'std::fstream f(filePath, std::ios::out | std::ios::binary);', 'std::fstream f(filePath, std::ios::out | std::ios::trunc | std::ios::binary);'))
fire('C15', 'reopen-forgets-failure', (W, '    f.close();\n' + FINAL, '    f.close();\n    f.open(filePath, std::ios::in | std::ios::out | std::ios::binary);\n    f.close();\n' + FINAL))
fire('C18', 'writes-through-const-input', (W, '    std::vector<std::string> labels(parameters().group("POINT").parameter("LABELS").valuesAsString());\n    for (size_t i=0; i<labels.size(); ++i)\n        try {', '    std::vector<std::string> labels(parameters().group("POINT").parameter("LABELS").valuesAsString());\n    if (f.points().nbPoints() > 0) f.points_nonConst().point_nonConst(0).name(labels.size() ? labels[0] : "");\n    for (size_t i=0; i<labels.size(); ++i)\n        try {'))
fire('C11', 'reported-size-counts-named', ('src/Parameters.cpp', """size_t ezc3d::ParametersNS::Parameters::nbGroups() const
{
    return _groups.size();""", """size_t ezc3d::ParametersNS::Parameters::nbGroups() const
{
    return static_cast<size_t>(std::count_if(_groups.begin(), _groups.end(), [](const ezc3d::ParametersNS::GroupNS::Group& g) { return !g.name().empty(); }));"""))

# ---- third mutation sweep (sibling identifiers)
fire('C02', 'labels-guarded-by-other-section', ('src/Data.cpp', 'if (file.header().nb3dPoints() > 0)\n        pointNames', 'if (file.header().nbAnalogs() > 0)\n        pointNames'))
fire('C02', 'channel-names-from-point-labels', ('src/Data.cpp', 'analogNames = file.parameters().group("ANALOG").parameter("LABELS").valuesAsString();', 'analogNames = file.parameters().group("POINT").parameter("LABELS").valuesAsString();'))
fire('C05', 'skip-guard-other-parameter', (W, 'if (nFrames != static_cast<size_t>(grpPoint.parameter("FRAMES").valuesAsInt()[0])){', 'if (nFrames != static_cast<size_t>(grpPoint.parameter("USED").valuesAsInt()[0])){'))

# ---- round-7 rules (status-returning file calls, updater refusals, exclusive value setters, padded queries, shapes of typed getters)
INC = (W, '#include "ezc3d.h"', '#include "ezc3d.h"\n#include <cstdio>')
RENAME_W = (W, "std::fstream f(filePath, std::ios::out | std::ios::binary);", 'const std::string tmpPath(filePath + ".tmp");\n    std::fstream f(tmpPath, std::ios::out | std::ios::binary);')
fire('C15', 'rename-failure-tolerated', INC, RENAME_W,
     (W, FINAL, FINAL + '\n    if (std::rename(tmpPath.c_str(), filePath.c_str()) != 0)\n        std::remove(tmpPath.c_str());'))
fire('C15', 'rename-result-dropped', INC, RENAME_W,
     (W, FINAL, FINAL + '\n    std::rename(tmpPath.c_str(), filePath.c_str());'))
quiet('C15', 'rename-failure-throws', INC, RENAME_W,
      (W, FINAL, FINAL + '\n    if (std::rename(tmpPath.c_str(), filePath.c_str()) != 0)\n        throw std::ios_base::failure("Could not move the c3d file to its destination");'))
fire('C10', 'updater-refuses-midway', (W, '        for (size_t i = 0; i < nPoints; ++i){\n            std::string name;', '        for (size_t i = 0; i < nPoints; ++i){\n            if (i > 254) throw std::invalid_argument("too many points");\n            std::string name;'))
for pid in ('C01', 'C06'):
    fire(pid, 'setter-writes-sibling', ('src/Point.cpp', '    _data[3] = residual;', '    _data[3] = residual;\n    if (residual < 0) { x(0); y(0); z(0); }'))
quiet('C06', 'setter-writes-own-twice', ('src/Point.cpp', '    _data[3] = residual;', '    _data[3] = 0;\n    _data[3] = residual;'))
fire('C11', 'query-trimmed', ('src/Points.cpp', """    for (size_t i = 0; i < nbPoints(); ++i)
        if (!point(i).name().compare(pointName))""", """    std::string name(pointName);
    ezc3d::removeTrailingSpaces(name);
    for (size_t i = 0; i < nbPoints(); ++i)
        if (!point(i).name().compare(name))"""))
fire('C11', 'getter-open-when-empty', ('src/Parameter.cpp', 'if (_data_type != DATA_TYPE::BYTE)', 'if (_data_type != DATA_TYPE::BYTE && !isDimensionConsistent(0, _dimension))'))
LEAF = """            if (_data_type == DATA_TYPE::BYTE)
                f.write(reinterpret_cast<const char*>(&(_param_data_int[cmp])), static_cast<int>(_data_type));
            else if (_data_type == DATA_TYPE::INT)
                f.write(reinterpret_cast<const char*>(&(_param_data_int[cmp])), static_cast<int>(_data_type));
            else if (_data_type == DATA_TYPE::FLOAT)
                f.write(reinterpret_cast<const char*>(&(_param_data_float[cmp])), static_cast<int>(_data_type));
            else if (_data_type == DATA_TYPE::CHAR){"""
LEAF2 = """            if (_data_type == DATA_TYPE::FLOAT)
                f.write(reinterpret_cast<const char*>(&(_param_data_float[cmp])), static_cast<int>(_data_type));
            else if (_data_type != DATA_TYPE::CHAR)
                f.write(reinterpret_cast<const char*>(&(_param_data_int[cmp])), %s);
            else {"""
for pid in ('C03', 'C04'):
    fire(pid, 'byte-int-one-width', ('src/Parameter.cpp', LEAF, LEAF2 % 'ezc3d::DATA_TYPE::INT'))
    quiet(pid, 'byte-int-shared-branch', ('src/Parameter.cpp', LEAF, LEAF2 % 'static_cast<int>(_data_type)'))
fire('C06', 'override-same-name', ('src/Points.cpp', """    if (idx == SIZE_MAX)
        _points.push_back(point);""", """    if (idx == SIZE_MAX){
        size_t found(SIZE_MAX);
        for (size_t i = 0; i < nbPoints(); ++i)
            if (!_points[i].name().compare(point.name())){
                found = i;
                break;
            }
        if (found == SIZE_MAX)
            _points.push_back(point);
        else
            _points[found] = point;
    }"""))

# ---- round-8 / quiet round-9 rules
LAMBDA = '''    const auto throwIfWritingFailed = [&f]() {
        if (f.fail())
            throw std::ios_base::failure("Could not write the c3d file");
    };
'''
quiet('C15', 'test-in-local-lambda', (W, '    // Write the header\n', LAMBDA + '    // Write the header\n'), (W, '    // Write the parameters\n', '    throwIfWritingFailed();\n    // Write the parameters\n'), (W, FINAL, '    throwIfWritingFailed();'))
fire('C15', 'lambda-not-called-after-close', (W, '    // Write the header\n', LAMBDA + '    // Write the header\n'), (W, '    f.close();\n' + FINAL, '    throwIfWritingFailed();\n    f.close();'))
ANALOG_SYNC = '''    // Should always be greater than 0, but we have to take in account Optotrak lazyness
    if (parameters().group("ANALOG").nbParameters()){
        if (static_cast<size_t>(parameters().group("ANALOG").parameter("USED").valuesAsInt()[0]) != header().nbAnalogs())
            _header->nbAnalogs(static_cast<size_t>(parameters().group("ANALOG").parameter("USED").valuesAsInt()[0]));
    } else
        _header->nbAnalogs(0);
'''
for pid in ('C03', 'C05'):
    fire(pid, 'channel-count-before-subframes', (W, ANALOG_SYNC, ''), (W, '    // Compare the subframe with data when possible, otherwise go with the parameters\n', ANALOG_SYNC + '    // Compare the subframe with data when possible, otherwise go with the parameters\n'))
for pid in ('C02', 'C12'):
    fire(pid, 'payload-rewritten-after-read', ('src/Parameter.cpp', '    else if (_data_type == DATA_TYPE::INT)\n        file.readParam(static_cast<unsigned int>(_data_type), _dimension, _param_data_int);',
         '    else if (_data_type == DATA_TYPE::INT) {\n        file.readParam(static_cast<unsigned int>(_data_type), _dimension, _param_data_int);\n        for (size_t i = 0; i < _param_data_int.size(); ++i)\n            if (_param_data_int[i] < 0)\n                _param_data_int[i] += 0x10000;\n    }'))
fire('C02', 'blank-string-dropped', (W, '''        if (dimension[0] != 0) {
            std::string tp;
            for (size_t j = 0; j < dimension[0]; ++j)
                tp += param_data_string_tp[j];
            ezc3d::removeTrailingSpaces(tp);
            param_data_string.push_back(tp);
        }''', '''        std::string tp;
        for (size_t j = 0; j < dimension[0]; ++j)
            tp += param_data_string_tp[j];
        ezc3d::removeTrailingSpaces(tp);
        if (!tp.empty())
            param_data_string.push_back(tp);'''))
for pid in ('C01', 'C03'):
    fire(pid, 'empty-named-group-skipped', ('src/Parameters.cpp', 'if (!group(i).name().empty())', 'if (!group(i).name().empty() && group(i).nbParameters() != 0)'))
fire('C17', 'dimension-bytes-through-char-range', ('src/Parameter.cpp', '''        for (size_t i=0; i<nDimensions; ++i)
            _dimension.push_back (file.readUint(1*ezc3d::DATA_TYPE::BYTE));    // Read the dimension size of the matrix''', '''    {
        std::vector<char> dimensionSizes(nDimensions);
        file.read(dimensionSizes.data(), static_cast<std::streamsize>(nDimensions*ezc3d::DATA_TYPE::BYTE));
        _dimension.assign(dimensionSizes.begin(), dimensionSizes.end());
    }'''))

# ---- round-9 / quiet round-10 rules
for pid in ('C01', 'C02', 'C04'):
    fire(pid, 'parameters-inherit-group-lock', ('src/Group.cpp', 'p.read(file, nbCharInName);', 'p.read(file, isLocked() ? -abs(nbCharInName) : nbCharInName);'))
    fire(pid, 'parameter-lock-sign-dropped', ('src/Parameters.cpp', '        if (nbCharInName == 0)', '        bool entryLocked(nbCharInName < 0);\n        if (nbCharInName == 0)'),
         ('src/Parameters.cpp', 'nextParamByteInFile = group_nonConst(static_cast<size_t>(abs(id)-1)).read(file, nbCharInName);',
          '{ nextParamByteInFile = group_nonConst(static_cast<size_t>(abs(id)-1)).read(file, abs(nbCharInName)); if (entryLocked) group_nonConst(static_cast<size_t>(abs(id)-1)).lock(); }'),
         ('src/Parameters.cpp', 'parameter(file, nbCharInName);', 'parameter(file, abs(nbCharInName));'))
    quiet(pid, 'group-lock-reapplied', ('src/Parameters.cpp', '        if (nbCharInName == 0)', '        bool entryLocked(nbCharInName < 0);\n        if (nbCharInName == 0)'),
          ('src/Parameters.cpp', 'nextParamByteInFile = group_nonConst(static_cast<size_t>(abs(id)-1)).read(file, nbCharInName);',
           '{ nextParamByteInFile = group_nonConst(static_cast<size_t>(abs(id)-1)).read(file, abs(nbCharInName)); if (entryLocked) group_nonConst(static_cast<size_t>(abs(id)-1)).lock(); }'))
fire('C02', 'name-stream-hoisted', ('src/Data.cpp', '        ezc3d::DataNS::Frame f;', '        ezc3d::DataNS::Frame f;\n        std::stringstream unlabel;'),
     ('src/Data.cpp', '                    std::stringstream unlabel;\n                    unlabel << "unlabeled_point_" << i;', '                    unlabel.clear();\n                    unlabel << "unlabeled_point_" << i;'))
quiet('C02', 'name-stream-hoisted-and-emptied', ('src/Data.cpp', '        ezc3d::DataNS::Frame f;', '        ezc3d::DataNS::Frame f;\n        std::stringstream unlabel;'),
      ('src/Data.cpp', '                    std::stringstream unlabel;\n                    unlabel << "unlabeled_point_" << i;', '                    unlabel.str("");\n                    unlabel << "unlabeled_point_" << i;'))
fire('C15', 'early-return-on-empty-path', (W, '    std::fstream f(filePath, std::ios::out | std::ios::binary);', '    if (filePath.empty())\n        return;\n    std::fstream f(filePath, std::ios::out | std::ios::binary);'))
fire('C15', 'padding-through-streambuf-iterator', ('src/Parameter.cpp', '#include "Parameter.h"', '#include "Parameter.h"\n#include <iterator>\n#include <algorithm>'),
     ('src/Parameter.cpp', '''                for (size_t j=_param_data_string[0].size(); j<_dimension[0]; ++j)
                    f.write(&buffer, static_cast<int>(DATA_TYPE::BYTE));''', '''                if (_param_data_string[0].size() < _dimension[0])
                    std::fill_n(std::ostreambuf_iterator<char>(f), _dimension[0] - _param_data_string[0].size(), buffer);'''))
fire('C11', 'name-moved-then-trimmed', ('include/Point.h', '    void name(const std::string &name);', '    void name(const std::string &name);\n    void name(std::string &&name);'),
     ('src/Point.cpp', 'void ezc3d::DataNS::Points3dNS::Point::name(const std::string &name)', 'void ezc3d::DataNS::Points3dNS::Point::name(std::string &&name)\n{\n    _name = std::move(name);\n    ezc3d::removeTrailingSpaces(name);\n}\n\nvoid ezc3d::DataNS::Points3dNS::Point::name(const std::string &name)'))

# ---- round-10 / quiet rounds 11-12 rules
for pid in ('C12', 'C17'):
    fire(pid, 'header-word-in-short-member', ('include/Header.h', '    size_t _nbMaxInterpGap;', '    short _nbMaxInterpGap;'))
fire('C09', 'merge-loop-over-existing-group', ('src/Parameters.cpp', '        for (size_t i=0; i < g.nbParameters(); ++i)\n            _groups[alreadyExtIdx].parameter(g.parameter(i));',
     '        for (size_t i=0; i < _groups[alreadyExtIdx].nbParameters(); ++i)\n            _groups[alreadyExtIdx].parameter(g.parameter(i));'))
for pid in ('C03', 'C05'):
    fire(pid, 'rate-difference-truncated', (W, 'if (static_cast<int>(pointRate*buffer) != static_cast<int>(header().frameRate()*buffer)){', 'if (static_cast<int>(pointRate - header().frameRate())*buffer != 0){'))
for pid in ('C01', 'C12'):
    fire(pid, 'negative-residual-normalised', ('src/Point.cpp', '    _data[3] = residual;', '    _data[3] = residual < 0 ? -1 : residual;'))
for pid in ('C13', 'C16'):
    fire(pid, 'trailing-placeholders-popped-unchecked', ('src/Parameters.cpp', '''            nextParamByteInFile = group_nonConst(static_cast<size_t>(id-1)).parameter(file, nbCharInName);
    }''', '''            nextParamByteInFile = group_nonConst(static_cast<size_t>(id-1)).parameter(file, nbCharInName);
    }
    while (_groups.back().name().empty())
        _groups.pop_back();'''))
quiet('C15', 'rdstate-mask', (W, FINAL, '''    const std::ios_base::iostate errorBits(std::ios_base::failbit | std::ios_base::badbit);
    if ((f.rdstate() & errorBits) == std::ios_base::goodbit)
        return;
    throw std::ios_base::failure("Could not write the c3d file");'''))
fire('C15', 'rdstate-badbit-only', (W, FINAL, '''    if ((f.rdstate() & std::ios_base::badbit) == std::ios_base::goodbit)
        return;
    throw std::ios_base::failure("Could not write the c3d file");'''))

def main():
    made = 0
    skipped = []
    base = os.path.join(V, 'selftest')
    for d in os.listdir(base) if os.path.isdir(base) else []:
        p = os.path.join(base, d)
        if os.path.isdir(p) and re.match(r'^C\d+$', d):
            for f in os.listdir(p):
                if f.endswith('.patch'):
                    os.unlink(os.path.join(p, f))
    counters = {}
    for pid, kind, slug, edits in T:
        tmp = tempfile.mkdtemp(prefix='mkst-')
        try:
            for sub in ('a', 'b'):
                for e in edits:
                    dst = os.path.join(tmp, sub, e[0])
                    os.makedirs(os.path.dirname(dst), exist_ok=True)
                    if not os.path.exists(dst):
                        shutil.copy(os.path.join('/repo', e[0]), dst)
            ok = True
            for f, old, new in edits:
                p = os.path.join(tmp, 'b', f)
                s = open(p).read()
                if old not in s:
                    ok = False
                    skipped.append((pid, slug, f))
                    break
                open(p, 'w').write(s.replace(old, new, 1))
            if not ok:
                continue
            if kind == 'fire' or kind == 'quiet':
                bad = False
                for f, _, _ in edits:
                    if f.endswith('.cpp'):
                        r = subprocess.run(['g++', '-std=gnu++11', '-I' + os.path.join(tmp, 'b', 'include'), '-I/repo/include', '-fsyntax-only', os.path.join(tmp, 'b', f)], capture_output=True, text=True)
                        if r.returncode:
                            bad = True
                            skipped.append((pid, slug, 'does not compile: ' + r.stderr[:200]))
                if bad:
                    continue
            r = subprocess.run(['diff', '-ruN', 'a', 'b'], cwd=tmp, capture_output=True, text=True)
            n = counters.get((pid, kind), 0) + 1
            counters[(pid, kind)] = n
            os.makedirs(os.path.join(base, pid), exist_ok=True)
            out = os.path.join(base, pid, '%s-%02d-%s.patch' % (kind, n, slug))
            open(out, 'w').write(r.stdout)
            made += 1
        finally:
            shutil.rmtree(tmp, ignore_errors=True)
    print('wrote', made, 'patches; skipped', skipped)

if __name__ == '__main__':
    main()
