#!/usr/bin/env python3
"""tools/trymut.py <property ids, comma separated> <file> <old> <new> [<file> <old> <new> ...]
apply textual replacements to /repo (developer aid: NOT part of any check), verify it still
compiles, run the checks, restore the tree.  Prints each check's last line and exit code."""
import subprocess, sys, os
pids = sys.argv[1].split(',')
trip = sys.argv[2:]
assert len(trip) % 3 == 0
orig = {}
try:
    for i in range(0, len(trip), 3):
        f, old, new = trip[i:i+3]
        p = os.path.join('/repo', f)
        s = open(p).read()
        orig.setdefault(p, s)
        if old not in s:
            print('PATTERN NOT FOUND in', f, ':', old); sys.exit(3)
        open(p, 'w').write(s.replace(old, new, 1))
    for p in orig:
        if p.endswith('.cpp'):
            r = subprocess.run(['g++', '-std=gnu++11', '-I/repo/include', '-fsyntax-only', p], capture_output=True, text=True)
            if r.returncode:
                print('DOES NOT COMPILE:', r.stderr[:500]); sys.exit(4)
    for pid in pids:
        r = subprocess.run([os.path.join(os.path.dirname(__file__), '..', 'check'), pid], capture_output=True, text=True)
        lines = [l for l in r.stdout.splitlines() if l.startswith(('VIOLATION', '  rule', 'UNDECIDED'))]
        print('%s exit=%d' % (pid, r.returncode))
        for l in lines[:8]: print('   ', l[:300])
        if r.returncode not in (0, 1): print(r.stdout[-1500:], r.stderr[-1500:])
finally:
    for p, s in orig.items():
        open(p, 'w').write(s)
